package httpfs

import (
	"net/http"
	"os"
	"path/filepath"
	"testing"
)

// C19: the http file-system loader reports exactly the regular files below its root, never directories.
func TestDemoC19HttpfsDirectory(t *testing.T) {
	dir := t.TempDir()
	if err := os.MkdirAll(filepath.Join(dir, "sub"), 0o755); err != nil {
		t.Fatal(err)
	}
	if err := os.WriteFile(filepath.Join(dir, "sub", "a.jet"), []byte("x"), 0o644); err != nil {
		t.Fatal(err)
	}
	l, err := NewLoader(http.Dir(dir))
	if err != nil {
		t.Fatal(err)
	}
	if !l.Exists("/sub/a.jet") {
		t.Fatal("regular file not found")
	}
	if l.Exists("/sub") {
		t.Fatal("Exists(\"/sub\") is true for a directory")
	}
}
