package jet

import (
	"bytes"
	"reflect"
	"testing"
)

// C18: LetGlobal binds in the outermost template scope - also when Execute was called with a nil VarMap and LetGlobal
// is called from a nested scope (it used to stop one scope below the root, so the variable vanished with that scope).
func TestDemoC18LetGlobalNilVarMap(t *testing.T) {
	set := NewSet(NewInMemLoader())
	set.AddGlobalFunc("lg", func(a Arguments) reflect.Value {
		a.Runtime().LetGlobal("g", 5)
		return reflect.Value{}
	})
	tt, err := set.Parse("/a.jet", `{{ if true }}{{ y := 1 }}{{ lg() }}{{ end }}[{{ g }}]`)
	if err != nil {
		t.Fatal(err)
	}
	for _, vars := range []VarMap{nil, {}} {
		var buf bytes.Buffer
		if err := tt.Execute(&buf, vars, nil); err != nil || buf.String() != "[5]" {
			t.Errorf("VarMap %v: %q, %v; want [5]", vars, buf.String(), err)
		}
	}
}
