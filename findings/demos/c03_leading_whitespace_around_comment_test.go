package jet

import (
	"bytes"
	"testing"
)

// C03: text outside actions is copied verbatim. Whitespace-only text before the first action is kept when no
// extends/import clause follows - every piece of it, also when a comment splits it in two.
func TestDemoC03LeadingWhitespaceAroundComment(t *testing.T) {
	for _, c := range []struct{ src, want string }{
		{" {*c*}\n{{ 1 }}", " \n1"},
		{"\t{* a *} {* b *}\n{{ 1 }}", "\t \n1"},
		{" {*c*}\n", " \n"},
		{" \n{{ 1 }}", " \n1"},
	} {
		set := NewSet(NewInMemLoader())
		tt, err := set.Parse("/a.jet", c.src)
		if err != nil {
			t.Fatal(err)
		}
		var buf bytes.Buffer
		if err := tt.Execute(&buf, nil, nil); err != nil || buf.String() != c.want {
			t.Errorf("%q rendered %q, %v; want %q", c.src, buf.String(), err, c.want)
		}
	}
}
