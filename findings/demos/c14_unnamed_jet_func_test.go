package jet

import (
	"bytes"
	"reflect"
	"testing"
)

// C14/C12: a func(Arguments) reflect.Value that was not declared with the named type jet.Func is called like a
// jet.Func, in every call shape; it used to pass the AssignableTo test and then fail the type assertion to Func,
// a runtime error that Execute re-panics.
func TestDemoC14UnnamedJetFunc(t *testing.T) {
	plain := func(a Arguments) reflect.Value {
		return reflect.ValueOf(a.NumOfArguments())
	}
	for _, c := range []struct{ src, want string }{
		{`{{ plain() }}`, "0"}, {`{{ "x" | plain }}`, "1"}, {`{{ plain: 1, 2 }}`, "2"}, {`{{ "x" | plain(1, _) }}`, "2"}, {`{{ named(1) }}`, "1"},
	} {
		func() {
			defer func() {
				if r := recover(); r != nil {
					t.Errorf("%s: Execute panicked: %v", c.src, r)
				}
			}()
			set := NewSet(NewInMemLoader())
			tt, err := set.Parse("/a.jet", c.src)
			if err != nil {
				t.Fatal(err)
			}
			var buf bytes.Buffer
			if err := tt.Execute(&buf, VarMap{}.Set("plain", plain).Set("named", Func(plain)), nil); err != nil || buf.String() != c.want {
				t.Errorf("%s: %q, %v; want %q", c.src, buf.String(), err, c.want)
			}
		}()
	}
}
