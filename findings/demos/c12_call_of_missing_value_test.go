package jet

import (
	"bytes"
	"strings"
	"testing"
)

// C12: calling something that does not exist - a missing map entry, nil - is an evaluation error naming file and line
// in every call shape; in command position it used to render nothing and return no error.
func TestDemoC12CallOfMissingValue(t *testing.T) {
	for _, src := range []string{"a\n{{ m.nokey(\"x\") }}b", "a\n{{ m.nokey() }}b", "a\n{{ m.nokey: \"x\" }}b", "a\n{{ v := m.nokey(\"x\") }}b"} {
		set := NewSet(NewInMemLoader())
		tt, err := set.Parse("/a.jet", src)
		if err != nil {
			t.Fatal(err)
		}
		var buf bytes.Buffer
		err = tt.Execute(&buf, VarMap{}.Set("m", map[string]interface{}{}), nil)
		if err == nil || buf.String() != "a\n" {
			t.Errorf("%q: output %q, error %v", src, buf.String(), err)
		} else if !strings.Contains(err.Error(), `"/a.jet":2`) && !strings.Contains(src, ":=") {
			t.Errorf("%q: error without location: %v", src, err)
		}
	}
}
