package jet

import (
	"errors"
	"io"
	"strings"
	"testing"
)

// countingLoader serves two templates that extend each other and gives up after too many opens, so that the
// demonstration ends with a test failure instead of the fatal "stack overflow" the real recursion ends in.
type demoC02CycleLoader struct{ opens int }

func (l *demoC02CycleLoader) Exists(p string) bool { return p == "/a.jet" || p == "/b.jet" }
func (l *demoC02CycleLoader) Open(p string) (io.ReadCloser, error) {
	l.opens++
	if l.opens > 50 {
		return nil, errors.New("demo: gave up after 50 opens")
	}
	if p == "/a.jet" {
		return io.NopCloser(strings.NewReader(`{{extends "/b.jet"}}`)), nil
	}
	return io.NopCloser(strings.NewReader(`{{extends "/a.jet"}}`)), nil
}

// C02 (known finding): GetTemplate never hangs. Two templates that extend each other make Set.parse recurse
// without bound (a -> b -> a -> ...): with a real loader the process dies with a stack overflow.
func TestDemoC02CyclicExtends(t *testing.T) {
	l := &demoC02CycleLoader{}
	set := NewSet(l)
	_, err := set.GetTemplate("/a.jet")
	if l.opens > 4 {
		t.Fatalf("GetTemplate opened the two templates %d times (unbounded recursion through extends), err=%v", l.opens, err)
	}
	if err == nil {
		t.Fatal("a cyclic extends chain must be reported as an error")
	}
}
