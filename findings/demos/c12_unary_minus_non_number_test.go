package jet

import (
	"bytes"
	"strings"
	"testing"
)

// C12/C04: a sign applied to a non-number is an operand of the wrong kind: an error naming file and line,
// not a nil dereference (the unary form has no left operand to report the error on).
func TestDemoC12UnaryMinusNonNumber(t *testing.T) {
	for _, src := range []string{`{{ -"a" }}`, "\n\n{{ -s }}", `{{ +s }}`} {
		l := NewInMemLoader()
		set := NewSet(l)
		l.Set("/a.jet", src)
		tt, err := set.GetTemplate("/a.jet")
		if err != nil {
			t.Fatal(err)
		}
		func() {
			defer func() {
				if r := recover(); r != nil {
					t.Fatalf("%s: Execute panicked: %v", src, r)
				}
			}()
			var buf bytes.Buffer
			err := tt.Execute(&buf, VarMap{}.Set("s", "text"), nil)
			if err == nil || !strings.Contains(err.Error(), `"/a.jet"`) {
				t.Fatalf("%s: want an error naming the file, got %v", src, err)
			}
		}()
	}
}
