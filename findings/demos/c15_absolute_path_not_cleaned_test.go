package jet

import (
	"io"
	"strings"
	"testing"
)

type demoC15Loader struct {
	inner *InMemLoader
	seen  []string
}

func (l *demoC15Loader) Exists(p string) bool { l.seen = append(l.seen, p); return l.inner.Exists(p) }
func (l *demoC15Loader) Open(p string) (io.ReadCloser, error) {
	l.seen = append(l.seen, p)
	return l.inner.Open(p)
}

// C15: every path handed to the Loader is absolute and lexically clean, however the name was spelt.
func TestDemoC15AbsolutePathNotCleaned(t *testing.T) {
	in := NewInMemLoader()
	in.Set("/a.jet", `{{include "/x/../../etc/passwd"}}`)
	l := &demoC15Loader{inner: in}
	set := NewSet(l)
	tt, err := set.GetTemplate("/a//./a.jet")
	if err == nil {
		var sb strings.Builder
		tt.Execute(&sb, nil, nil)
	}
	set.GetTemplate("/b/../c/")
	for _, p := range l.seen {
		if strings.Contains(p, "..") || strings.Contains(p, "//") || strings.Contains(p, "/./") || (len(p) > 1 && strings.HasSuffix(p, "/")) {
			t.Fatalf("loader saw unclean path %q (all: %q)", p, l.seen)
		}
	}
}
