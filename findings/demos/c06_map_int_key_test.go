package jet

import (
	"bytes"
	"testing"
)

// C06: maps are indexed by a key of their key type; a[k] never crashes.
func TestDemoC06MapIntKey(t *testing.T) {
	l := NewInMemLoader()
	set := NewSet(l)
	l.Set("/a.jet", `{{ m[1] }}`)
	tt, err := set.GetTemplate("/a.jet")
	if err != nil {
		t.Fatal(err)
	}
	var buf bytes.Buffer
	if err := tt.Execute(&buf, VarMap{}.Set("m", map[int]string{1: "one"}), nil); err != nil {
		t.Fatal(err)
	}
	if buf.String() != "one" {
		t.Fatalf("got %q want %q", buf.String(), "one")
	}
}
