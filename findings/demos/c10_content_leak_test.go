package jet

import (
	"bytes"
	"testing"
)

// C10: nothing bound during a failed execution (here: yielded content) is observable in a later one.
func TestDemoC10ContentLeak(t *testing.T) {
	l := NewInMemLoader()
	set := NewSet(l)
	l.Set("/blocks.jet", `{{block b()}}<{{nope}}{{yield content}}>{{end}}`)
	l.Set("/a.jet", `{{import "/blocks.jet"}}{{yield b() content}}LEAK{{end}}`)
	l.Set("/b.jet", `[{{yield content}}]`)
	ta, err := set.GetTemplate("/a.jet")
	if err != nil {
		t.Fatal(err)
	}
	tb, err := set.GetTemplate("/b.jet")
	if err != nil {
		t.Fatal(err)
	}
	for i := 0; i < 50; i++ {
		var buf bytes.Buffer
		if err := ta.Execute(&buf, nil, nil); err == nil {
			t.Fatal("expected an error from /a.jet")
		}
		buf.Reset()
		if err := tb.Execute(&buf, nil, nil); err != nil {
			t.Fatal(err)
		}
		if buf.String() != "[]" {
			t.Fatalf("got %q want %q", buf.String(), "[]")
		}
	}
}
