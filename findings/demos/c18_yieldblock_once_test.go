package jet

import (
	"bytes"
	"reflect"
	"testing"
)

// C18: YieldBlock(name, ctx) renders that block exactly once, like {{yield name() ctx}}.
func TestDemoC18YieldBlockOnce(t *testing.T) {
	l := NewInMemLoader()
	set := NewSet(l)
	set.AddGlobalFunc("yb", func(a Arguments) reflect.Value {
		a.Runtime().YieldBlock("b", "C")
		return reflect.ValueOf("")
	})
	l.Set("/blocks.jet", `{{block b()}}<{{.}}>{{end}}`)
	l.Set("/a.jet", `{{import "/blocks.jet"}}{{yb()}}`)
	ta, err := set.GetTemplate("/a.jet")
	if err != nil {
		t.Fatal(err)
	}
	var buf bytes.Buffer
	if err := ta.Execute(&buf, nil, "ctx"); err != nil {
		t.Fatal(err)
	}
	if buf.String() != "<C>" {
		t.Fatalf("got %q want %q", buf.String(), "<C>")
	}
}
