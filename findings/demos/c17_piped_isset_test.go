package jet

import (
	"bytes"
	"testing"
)

// C17/C14: x | isset is isset(x): true exactly when the piped value exists and is not nil. Arguments.IsSet used to
// answer true for every piped value (and for every '_' placeholder) without looking at it.
func TestDemoC17PipedIsset(t *testing.T) {
	type data struct {
		P *int
		M map[string]int
		N int
	}
	for _, c := range []struct{ src, want string }{
		{`{{ d.P | isset }}{{ isset(d.P) }}`, "falsefalse"},
		{`{{ d.M | isset }}{{ isset(d.M) }}`, "falsefalse"},
		{`{{ d.M | isset(_) }}`, "false"},
		{`{{ d.N | isset }}{{ d.N | isset(_) }}`, "truetrue"},
		{`{{ m.absent | isset }}{{ m.present | isset }}`, "falsetrue"},
		{`{{ d.N | isset(d.P, _) }}{{ d.N | isset(d.N, _) }}`, "falsetrue"},
	} {
		set := NewSet(NewInMemLoader())
		tt, err := set.Parse("/a.jet", c.src)
		if err != nil {
			t.Fatal(err)
		}
		var buf bytes.Buffer
		vars := VarMap{}.Set("d", data{}).Set("m", map[string]interface{}{"present": 1})
		if err := tt.Execute(&buf, vars, nil); err != nil || buf.String() != c.want {
			t.Errorf("%s: %q, %v; want %q", c.src, buf.String(), err, c.want)
		}
	}
}
