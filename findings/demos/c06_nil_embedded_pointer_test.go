package jet

import (
	"bytes"
	"testing"
)

type demoC06Inner struct{ Name string }
type demoC06Outer struct {
	*demoC06Inner
	ID int
}

// C06: a nil dereference on an access path is an error, not a crash: a field promoted through a
// nil embedded pointer makes reflect.Value.FieldByIndex panic with a plain string, which Execute re-panics.
func TestDemoC06NilEmbeddedPointer(t *testing.T) {
	l := NewInMemLoader()
	set := NewSet(l)
	l.Set("/a.jet", `{{ .Name }}`)
	tt, err := set.GetTemplate("/a.jet")
	if err != nil {
		t.Fatal(err)
	}
	var buf bytes.Buffer
	defer func() {
		if r := recover(); r != nil {
			t.Fatalf("Execute panicked instead of returning an error: %v", r)
		}
	}()
	if err := tt.Execute(&buf, nil, demoC06Outer{ID: 1}); err == nil {
		t.Fatalf("expected an error, got output %q", buf.String())
	}
}
