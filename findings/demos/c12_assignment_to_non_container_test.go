package jet

import (
	"bytes"
	"strings"
	"testing"
)

// C12/C07: assigning to a member of a value that is neither a struct nor a map (or of nil) is an error naming file and
// line; it used to be ignored silently and rendering went on.
func TestDemoC12AssignmentToNonContainer(t *testing.T) {
	type holder struct{ P *struct{ X int } }
	for _, src := range []string{"a\n{{ m := 1 }}{{ m.x = 2 }}b", "a\n{{ s := \"str\" }}{{ s.x = 2 }}b", "a\n{{ h.P.X = 2 }}b"} {
		set := NewSet(NewInMemLoader())
		tt, err := set.Parse("/a.jet", src)
		if err != nil {
			t.Fatal(err)
		}
		var buf bytes.Buffer
		err = tt.Execute(&buf, VarMap{}.Set("h", holder{}), nil)
		if err == nil || !strings.Contains(err.Error(), `"/a.jet":2`) || buf.String() != "a\n" {
			t.Errorf("%q: output %q, error %v", src, buf.String(), err)
		}
	}
}
