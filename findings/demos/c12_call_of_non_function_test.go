package jet

import (
	"bytes"
	"strings"
	"testing"
)

// C12: a call target of the wrong kind is an error naming file and line, also when it is called with an empty
// argument list: {{ h.F() }} with F holding a string used to index the empty argument list and panic.
func TestDemoC12CallOfNonFunction(t *testing.T) {
	type holder struct{ F interface{} }
	for _, src := range []string{"a\n{{ h.F() }}b", "a\n{{ h.F(1) }}b", "a\n{{ s() }}b", "a\n{{ 1 | s }}b"} {
		func() {
			defer func() {
				if r := recover(); r != nil {
					t.Errorf("%q: Execute panicked: %v", src, r)
				}
			}()
			set := NewSet(NewInMemLoader())
			tt, err := set.Parse("/a.jet", src)
			if err != nil {
				t.Fatal(err)
			}
			var buf bytes.Buffer
			err = tt.Execute(&buf, VarMap{}.Set("h", holder{F: "str"}).Set("s", "str"), nil)
			if err == nil || !strings.Contains(err.Error(), `"/a.jet":2`) || buf.String() != "a\n" {
				t.Errorf("%q: output %q, error %v", src, buf.String(), err)
			}
		}()
	}
}
