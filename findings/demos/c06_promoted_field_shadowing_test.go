package jet

import (
	"bytes"
	"testing"
)

type DemoC06Embedded struct {
	Name  string
	Extra string
}
type demoC06Shadow struct {
	Name string
	DemoC06Embedded
}

// C06: a.b reaches the field Go's selector rules reach: a field of the outer struct shadows a promoted field of the
// same name, and a.b agrees with a["b"]; promoted fields without a competitor stay reachable.
func TestDemoC06PromotedFieldShadowing(t *testing.T) {
	l := NewInMemLoader()
	set := NewSet(l)
	l.Set("/a.jet", `{{ .Name }}|{{ .["Name"] }}|{{ .Extra }}|{{ .DemoC06Embedded.Name }}`)
	tt, err := set.GetTemplate("/a.jet")
	if err != nil {
		t.Fatal(err)
	}
	var buf bytes.Buffer
	d := demoC06Shadow{Name: "outer", DemoC06Embedded: DemoC06Embedded{Name: "inner", Extra: "x"}}
	if d.Name != "outer" {
		t.Fatal("Go's own selector rule changed?")
	}
	if err := tt.Execute(&buf, nil, d); err != nil || buf.String() != "outer|outer|x|inner" {
		t.Fatalf("got %q, %v; want %q", buf.String(), err, "outer|outer|x|inner")
	}
}
