package jet

import (
	"bytes"
	"testing"
)

// C09: exec evaluates to the value given to the last return statement the template executed - also when that
// statement stands in a block body or in the content handed to a yield.
func TestDemoC09ReturnInsideBlock(t *testing.T) {
	for _, c := range []struct{ sub, want string }{
		{`{{block b()}}{{return "inblock"}}{{end}}`, "[inblock]"},
		{`{{block b()}}{{end}}{{yield b()}}`, "[]"},
		{`{{block b(v="d")}}{{return v}}{{end}}{{yield b(v="yielded")}}`, "[yielded]"},
		{`{{block b()}}{{yield content}}{{end}}{{yield b() content}}{{return "incontent"}}{{end}}`, "[incontent]"},
		{`{{return "a"}}{{block b()}}x{{end}}`, "[a]"},
	} {
		l := NewInMemLoader()
		set := NewSet(l)
		l.Set("/sub.jet", c.sub)
		l.Set("/main.jet", `[{{ exec("/sub.jet") }}]`)
		tt, err := set.GetTemplate("/main.jet")
		if err != nil {
			t.Fatal(err)
		}
		var buf bytes.Buffer
		if err := tt.Execute(&buf, nil, nil); err != nil || buf.String() != c.want {
			t.Errorf("exec of %s gave %q, %v; want %q", c.sub, buf.String(), err, c.want)
		}
	}
}
