package jet

import (
	"bytes"
	"strings"
	"testing"
)

type demoC14Struct struct{ X int }

// C14/C12: an argument that can't be converted to the Go parameter type is an error (with file and line);
// Execute does not panic with reflect's "cannot be converted" message.
func TestDemoC14InconvertibleArgument(t *testing.T) {
	vars := VarMap{}.Set("st", demoC14Struct{1}).Set("f", func(a int) int { return a }).Set("v", func(a int, b ...int) int { return a })
	for _, src := range []string{`{{ f(st) }}`, `{{ st | f }}`, `{{ v(1, st) }}`, `{{ lower(st) }}`} {
		l := NewInMemLoader()
		set := NewSet(l)
		l.Set("/a.jet", src)
		tt, err := set.GetTemplate("/a.jet")
		if err != nil {
			t.Fatal(err)
		}
		func() {
			defer func() {
				if r := recover(); r != nil {
					t.Fatalf("%s: Execute panicked: %v", src, r)
				}
			}()
			var buf bytes.Buffer
			err := tt.Execute(&buf, vars, nil)
			if err == nil || !strings.Contains(err.Error(), `"/a.jet":1`) {
				t.Fatalf("%s: want an error naming file and line, got %v", src, err)
			}
		}()
	}
}
