package jet

import (
	"bytes"
	"strings"
	"testing"
)

type demoPVal struct{ N int }

func (p demoPVal) Get() int        { return p.N }
func (p *demoPVal) PtrGet() string { return "ptr-ok" }

// C12/C06: a method declared on the value type cannot be called through a nil pointer; that is an evaluation error
// naming file and line, not a panic out of Execute. Methods with a pointer receiver still work on a nil pointer.
func TestDemoC12ValueMethodOnNilPointer(t *testing.T) {
	type holder struct{ P *demoPVal }
	for _, c := range []struct {
		src, want string
		wantErr   bool
	}{{"a\n{{ h.P.Get() }}b", "a\n", true}, {"a\n{{ h.P.Get }}b", "a\n", true}, {"a{{ h.P.PtrGet() }}b", "aptr-okb", false}, {"a{{ g.P.Get() }}b", "a7b", false}} {
		func() {
			defer func() {
				if r := recover(); r != nil {
					t.Errorf("%q: Execute panicked: %v", c.src, r)
				}
			}()
			set := NewSet(NewInMemLoader())
			tt, err := set.Parse("/a.jet", c.src)
			if err != nil {
				t.Fatal(err)
			}
			var buf bytes.Buffer
			err = tt.Execute(&buf, VarMap{}.Set("h", holder{}).Set("g", holder{P: &demoPVal{7}}), nil)
			if c.wantErr != (err != nil) || buf.String() != c.want || (err != nil && !strings.Contains(err.Error(), `"/a.jet":2`)) {
				t.Errorf("%q: output %q, error %v", c.src, buf.String(), err)
			}
		}()
	}
}
