package jet

import (
	"bytes"
	"testing"
)

// C09: exec evaluates to the value given to the last return statement it executed;
// a later if/range/try/include without a return used to clobber it.
func TestDemoC09ReturnClobbered(t *testing.T) {
	l := NewInMemLoader()
	set := NewSet(l)
	l.Set("/sub.jet", `{{return "a"}}{{if true}}x{{end}}`)
	l.Set("/main.jet", `[{{exec("/sub.jet")}}]`)
	tt, err := set.GetTemplate("/main.jet")
	if err != nil {
		t.Fatal(err)
	}
	var buf bytes.Buffer
	if err := tt.Execute(&buf, nil, nil); err != nil {
		t.Fatal(err)
	}
	if got, want := buf.String(), "[a]"; got != want {
		t.Fatalf("got %q want %q", got, want)
	}
}
