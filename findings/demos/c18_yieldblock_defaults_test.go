package jet

import (
	"bytes"
	"reflect"
	"testing"
)

// C18: Runtime.YieldBlock(name, ctx) renders the block like {{yield name() ctx}}: the block's parameters take their
// defaults. It used to execute the block's body directly, so a parameter was an unknown identifier.
func TestDemoC18YieldBlockDefaults(t *testing.T) {
	set := NewSet(NewInMemLoader())
	set.AddGlobalFunc("yb", func(a Arguments) reflect.Value {
		a.Runtime().YieldBlock(a.Get(0).String(), a.Get(1).Interface())
		return reflect.Value{}
	})
	src := `{{block foo(a="dflt", b=false)}}<{{a}}:{{b}}:{{.}}>{{end}}|{{yield foo() "c"}}|{{yb("foo","c")}}|{{a := "outer"}}{{yb("foo","d")}}{{a}}`
	tt, err := set.Parse("/a.jet", src)
	if err != nil {
		t.Fatal(err)
	}
	var buf bytes.Buffer
	want := "<dflt:false:>|<dflt:false:c>|<dflt:false:c>|<dflt:false:d>outer"
	if err := tt.Execute(&buf, nil, nil); err != nil || buf.String() != want {
		t.Errorf("%q, %v; want %q", buf.String(), err, want)
	}
}
