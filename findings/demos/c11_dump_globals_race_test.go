package jet

import (
	"bytes"
	"fmt"
	"sync"
	"testing"
	"time"
)

// C11: concurrent Execute (here of a template calling dump()) and AddGlobal on one Set must be race free.
// Without the read lock in dumpAll the Go runtime aborts with "concurrent map iteration and map write"
// (or the race detector reports it).
func TestDemoC11DumpGlobalsRace(t *testing.T) {
	l := NewInMemLoader()
	set := NewSet(l)
	for i := 0; i < 50; i++ {
		set.AddGlobal(fmt.Sprintf("g%d", i), i)
	}
	l.Set("/d.jet", `{{dump()}}`)
	tt, err := set.GetTemplate("/d.jet")
	if err != nil {
		t.Fatal(err)
	}
	stop := time.Now().Add(1500 * time.Millisecond)
	var wg sync.WaitGroup
	for w := 0; w < 4; w++ {
		wg.Add(2)
		go func(w int) {
			defer wg.Done()
			for i := 0; time.Now().Before(stop); i++ {
				set.AddGlobal(fmt.Sprintf("w%d_%d", w, i%500), i)
			}
		}(w)
		go func() {
			defer wg.Done()
			for time.Now().Before(stop) {
				var buf bytes.Buffer
				if err := tt.Execute(&buf, nil, "ctx"); err != nil {
					t.Error(err)
					return
				}
			}
		}()
	}
	wg.Wait()
}
