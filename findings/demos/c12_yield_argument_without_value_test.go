package jet

import (
	"bytes"
	"strings"
	"testing"
)

// C12/C08: a yield argument without a value is an error naming file and line, whatever the number of
// parameters the block declares; Execute does not panic with an index out of range.
func TestDemoC12YieldArgumentWithoutValue(t *testing.T) {
	for _, src := range []string{`{{block b()}}x{{end}}{{yield b(q)}}`, `{{block b(a=2)}}x{{end}}{{yield b(a=1, q)}}`} {
		l := NewInMemLoader()
		set := NewSet(l)
		l.Set("/a.jet", src)
		tt, err := set.GetTemplate("/a.jet")
		if err != nil {
			t.Fatal(err)
		}
		func() {
			defer func() {
				if r := recover(); r != nil {
					t.Fatalf("%s: Execute panicked: %v", src, r)
				}
			}()
			var buf bytes.Buffer
			err := tt.Execute(&buf, nil, nil)
			if err == nil || !strings.Contains(err.Error(), `"/a.jet":1`) || !strings.Contains(err.Error(), "'q'") {
				t.Fatalf("%s: want an error naming file, line and the argument, got %v", src, err)
			}
		}()
	}
}
