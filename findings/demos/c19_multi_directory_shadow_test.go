package multi

import (
	"io/ioutil"
	"os"
	"path/filepath"
	"testing"

	"github.com/CloudyKit/jet/v6"
)

// C19: the multi loader answers from the first loader, in construction order, that HAS the path. os.Open succeeds on a
// directory, so a directory /x.jet in an earlier OS loader used to shadow the regular template /x.jet of a later
// loader: Exists was true (answered by the later loader) and Open returned the directory handle.
func TestDemoC19MultiDirectoryShadow(t *testing.T) {
	dir, err := ioutil.TempDir("", "jetmulti")
	if err != nil {
		t.Fatal(err)
	}
	defer os.RemoveAll(dir)
	if err := os.Mkdir(filepath.Join(dir, "x.jet"), 0o755); err != nil {
		t.Fatal(err)
	}
	mem := jet.NewInMemLoader()
	mem.Set("/x.jet", "hello")
	m := NewLoader(jet.NewOSFileSystemLoader(dir), mem)
	if !m.Exists("/x.jet") {
		t.Fatal("the in-memory loader has /x.jet")
	}
	f, err := m.Open("/x.jet")
	if err != nil {
		t.Fatalf("Open: %v", err)
	}
	defer f.Close()
	b, err := ioutil.ReadAll(f)
	if err != nil || string(b) != "hello" {
		t.Fatalf("Open(\"/x.jet\") yielded %q, %v; want the stored template", b, err)
	}
}
