package jet

import (
	"bytes"
	"fmt"
	"strings"
	"testing"
)

// C12/C14: a '_' placeholder without a piped value is a failure Jet detects itself: an error naming file and
// line, for Go functions (evaluateArgs) and jet.Func values (Arguments.Get) alike; Execute does not panic.
func TestDemoC12UnderscoreWithoutPipe(t *testing.T) {
	vars := VarMap{}.Set("v", func(a ...string) string { return fmt.Sprint(a) })
	for _, src := range []string{`{{ lower(_) }}`, `{{ len(_) }}`, `{{ v("a", _) }}`, `{{ "x" | lower(_) }}{{ lower(_) }}`} {
		l := NewInMemLoader()
		set := NewSet(l)
		l.Set("/a.jet", src)
		tt, err := set.GetTemplate("/a.jet")
		if err != nil {
			t.Fatal(err)
		}
		func() {
			defer func() {
				if r := recover(); r != nil {
					t.Fatalf("%s: Execute panicked: %v", src, r)
				}
			}()
			var buf bytes.Buffer
			err := tt.Execute(&buf, vars, nil)
			if err == nil || !strings.Contains(err.Error(), `"/a.jet":1`) {
				t.Fatalf("%s: want an error naming file and line, got %v", src, err)
			}
		}()
	}
}
