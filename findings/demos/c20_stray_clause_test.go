package utils

import (
	"testing"

	"github.com/CloudyKit/jet/v6"
)

// C20/C02: a {{catch}}, {{else}}, {{content}} or {{end}} that neither closes nor continues the enclosing construct
// is a structural mistake the parser reports; it used to be put into the statement list, where Walk panicked on it
// ("unexpected node").
func TestDemoC20StrayClause(t *testing.T) {
	for _, src := range []string{
		`a{{catch}}b{{end}}c`,
		`a{{catch e}}b{{end}}c`,
		`{{if true}}x{{catch}}y{{end}}{{end}}`,
		`{{block b()}}{{catch}}y{{end}}{{end}}`,
		`{{if 1}}a{{else}}b{{else}}c{{end}}`,
		`{{range .}}a{{else}}b{{else}}c{{end}}`,
		`{{try}}a{{catch}}b{{catch}}c{{end}}`,
		`{{yield b() content}}a{{content}}b{{end}}`,
	} {
		set := jet.NewSet(jet.NewInMemLoader())
		tt, err := set.Parse("/a.jet", src)
		if err != nil {
			continue // reported: fine
		}
		func() {
			defer func() {
				if r := recover(); r != nil {
					t.Errorf("%q parsed without error and Walk panicked: %v", src, r)
				}
			}()
			Walk(tt, VisitorFunc(func(vc VisitorContext, node jet.Node) { vc.Visit(node) }))
		}()
	}
}
