package jet

import (
	"strings"
	"testing"
)

// C02: a syntax error names the template and a line inside its source - also when the template's name contains a
// '%'. The name used to be pasted into a format string and formatted a second time.
func TestDemoC02PercentInTemplateName(t *testing.T) {
	set := NewSet(NewInMemLoader())
	_, err := set.Parse("/50%off.jet", "a\n{{ end }}")
	if err == nil {
		t.Fatal("expected a syntax error")
	}
	if !strings.Contains(err.Error(), "/50%off.jet:2:") || strings.Contains(err.Error(), "%!") || !strings.Contains(err.Error(), "unexpected") {
		t.Fatalf("garbled error: %q", err.Error())
	}
	_, err = set.Parse("/plain.jet", "a\n{{ end }}")
	if err == nil || !strings.Contains(err.Error(), "/plain.jet:2:") {
		t.Fatalf("error: %v", err)
	}
}
