package jet

import (
	"bytes"
	"testing"
)

// C04: an operator written without spaces after ')' or ']' means the same as with spaces.
func TestDemoC04MinusAfterParen(t *testing.T) {
	set := NewSet(NewInMemLoader())
	for src, want := range map[string]string{"{{ (2)-1 }}": "1", "{{ s[0]-1 }}": "4", "{{ (2)+1 }}": "3"} {
		tt, err := set.Parse("/x.jet", src)
		if err != nil {
			t.Fatalf("%s: parse: %v", src, err)
		}
		var buf bytes.Buffer
		if err := tt.Execute(&buf, VarMap{}.Set("s", []int{5}), nil); err != nil {
			t.Fatalf("%s: %v", src, err)
		}
		if buf.String() != want {
			t.Fatalf("%s: got %q want %q", src, buf.String(), want)
		}
	}
}
