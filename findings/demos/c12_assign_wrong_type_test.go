package jet

import (
	"bytes"
	"strings"
	"testing"
)

type demoC12Assign struct {
	N     int
	S     string
	M     map[string]int
	Nil   map[string]int
	IntM  map[int]int
	inner int
}

// C12: assigning a value of the wrong type to a struct field or map entry (or to something that can't be
// assigned to) is an error naming file and line; Execute does not panic with reflect's message.
func TestDemoC12AssignWrongType(t *testing.T) {
	for _, src := range []string{`{{ .N = "str" }}`, `{{ .M.k = "str" }}`, `{{ .Nil.k = v }}`, `{{ .IntM.k = v }}`, `{{ .inner = v }}`, `{{ .S = nil }}`} {
		l := NewInMemLoader()
		set := NewSet(l)
		l.Set("/a.jet", src)
		tt, err := set.GetTemplate("/a.jet")
		if err != nil {
			t.Fatal(err)
		}
		func() {
			defer func() {
				if r := recover(); r != nil {
					t.Fatalf("%s: Execute panicked: %v", src, r)
				}
			}()
			var buf bytes.Buffer
			err := tt.Execute(&buf, VarMap{}.Set("v", 1), &demoC12Assign{M: map[string]int{}, IntM: map[int]int{}})
			if err == nil || !strings.Contains(err.Error(), `"/a.jet":1`) {
				t.Fatalf("%s: want an error naming file and line, got %v", src, err)
			}
		}()
	}
	l := NewInMemLoader()
	set := NewSet(l)
	l.Set("/b.jet", `{{ .N = v }}{{ .S = "x" }}{{ .M.k = v }}{{ .N }}{{ .S }}{{ .M.k }}`)
	tt, err := set.GetTemplate("/b.jet")
	if err != nil {
		t.Fatal(err)
	}
	var buf bytes.Buffer
	if err := tt.Execute(&buf, VarMap{}.Set("v", 1), &demoC12Assign{M: map[string]int{}}); err != nil || buf.String() != "1x1" {
		t.Fatalf("got %q, %v", buf.String(), err)
	}
}
