package jet

import (
	"bytes"
	"strings"
	"testing"
)

// C12: an error raised on a block or yield names the line of that action, not of its {{end}}.
func TestDemoC12BlockErrorLine(t *testing.T) {
	l := NewInMemLoader()
	set := NewSet(l)
	l.Set("/a.jet", "line1\n{{yield b(1, 2)}}\n{{block b(x)}}\nbody\n\n{{end}}\n")
	tt, err := set.GetTemplate("/a.jet")
	if err != nil {
		t.Fatal(err)
	}
	var buf bytes.Buffer
	err = tt.Execute(&buf, nil, nil)
	if err == nil {
		t.Skip("no error raised on the block for this input")
	}
	if !strings.Contains(err.Error(), `"/a.jet":3)`) {
		t.Fatalf("error does not name line 3 (the block clause): %v", err)
	}
}
