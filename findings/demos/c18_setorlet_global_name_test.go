package jet

import (
	"bytes"
	"reflect"
	"testing"
)

// C18: SetOrLet picks between Set (a variable of that name is declared in a scope) and Let (none is). It used to
// decide with identifier lookup, which also finds Set globals and default variables: for such a name it chose Set,
// Set failed, the error was dropped, and nothing was bound.
func TestDemoC18SetOrLetGlobalName(t *testing.T) {
	set := NewSet(NewInMemLoader())
	set.AddGlobal("title", "G")
	set.AddGlobalFunc("sol", func(a Arguments) reflect.Value {
		a.Runtime().SetOrLet(a.Get(0).String(), a.Get(1).Interface())
		return reflect.Value{}
	})
	for _, c := range []struct{ src, want string }{
		{`{{sol("title","new")}}{{title}}`, "new"},
		{`{{sol("upper","shadow")}}{{upper}}`, "shadow"},
		{`{{x := "old"}}{{if true}}{{sol("x","new")}}{{end}}{{x}}`, "new"},
		{`{{if true}}{{sol("y","inner")}}{{y}}{{end}}{{isset(y)}}`, "innertrue"},
	} {
		tt, err := set.Parse("/a.jet", c.src)
		if err != nil {
			t.Fatal(err)
		}
		var buf bytes.Buffer
		if err := tt.Execute(&buf, nil, nil); err != nil || buf.String() != c.want {
			t.Errorf("%s: %q, %v; want %q", c.src, buf.String(), err, c.want)
		}
	}
}
