package jet

import (
	"bytes"
	"testing"
)

// C05/C12: '_' discards a range variable in the assigning form ({{range _, v = s}}) just as in the declaring form
// and in plain assignments; Execute does not panic with a failed type assertion.
func TestDemoC05RangeAssignUnderscore(t *testing.T) {
	l := NewInMemLoader()
	set := NewSet(l)
	l.Set("/a.jet", `{{ v := 0 }}{{ k := 0 }}{{range _, v = s}}{{v}}{{end}}|{{range k, _ = s}}{{k}}{{end}}|{{range _, w := s}}{{w}}{{end}}`)
	tt, err := set.GetTemplate("/a.jet")
	if err != nil {
		t.Fatal(err)
	}
	defer func() {
		if r := recover(); r != nil {
			t.Fatalf("Execute panicked: %v", r)
		}
	}()
	var buf bytes.Buffer
	if err := tt.Execute(&buf, VarMap{}.Set("s", []int{7, 8}), nil); err != nil || buf.String() != "78|01|78" {
		t.Fatalf("got %q, %v", buf.String(), err)
	}
}
