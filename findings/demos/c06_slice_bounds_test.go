package jet

import (
	"bytes"
	"strings"
	"testing"
)

// C06/C12: out-of-range or inverted slice bounds and slicing something that can't be sliced are errors naming
// file and line; Execute does not panic. In-range slices still yield the stored elements.
func TestDemoC06SliceBounds(t *testing.T) {
	vars := VarMap{}.Set("s", []int{1, 2, 3}).Set("str", "hello").Set("n", 1).Set("arr", [2]int{1, 2})
	for _, src := range []string{`{{ s[1:9] }}`, `{{ s[2:1] }}`, `{{ str[1:99] }}`, `{{ s[-1:] }}`, `{{ n[0:1] }}`, `{{ arr[0:1] }}`} {
		l := NewInMemLoader()
		set := NewSet(l)
		l.Set("/a.jet", src)
		tt, err := set.GetTemplate("/a.jet")
		if err != nil {
			t.Fatal(err)
		}
		func() {
			defer func() {
				if r := recover(); r != nil {
					t.Fatalf("%s: Execute panicked: %v", src, r)
				}
			}()
			var buf bytes.Buffer
			err := tt.Execute(&buf, vars, nil)
			if err == nil || !strings.Contains(err.Error(), `"/a.jet":1`) {
				t.Fatalf("%s: want an error naming file and line, got %v", src, err)
			}
		}()
	}
	l := NewInMemLoader()
	set := NewSet(l)
	l.Set("/b.jet", `{{ s[1:] }}{{ s[:2] }}{{ str[1:3] }}{{ s[3:] }}`)
	tt, err := set.GetTemplate("/b.jet")
	if err != nil {
		t.Fatal(err)
	}
	var buf bytes.Buffer
	if err := tt.Execute(&buf, vars, nil); err != nil || buf.String() != "[2 3][1 2]el[]" {
		t.Fatalf("got %q, %v", buf.String(), err)
	}
}
