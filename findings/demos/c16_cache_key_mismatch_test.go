package jet

import "testing"

// C16: outside development mode a successful GetTemplate is remembered for every extension list.
func TestDemoC16CacheKeyMismatch(t *testing.T) {
	l := NewInMemLoader()
	l.Set("/a.jet", "x")
	set := NewSet(l, WithTemplateNameExtensions([]string{".jet"}))
	t1, err := set.GetTemplate("/a")
	if err != nil {
		t.Fatal(err)
	}
	t2, err := set.GetTemplate("/a")
	if err != nil {
		t.Fatal(err)
	}
	if t1 != t2 {
		t.Fatalf("second GetTemplate returned a different template: the first one was not remembered")
	}
}
