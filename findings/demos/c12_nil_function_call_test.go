package jet

import (
	"bytes"
	"strings"
	"testing"
)

type demoC12Funcs struct {
	F func() string
	J Func
}

// C12: calling a nil function value (a call target Jet can recognise) is an error naming file and line;
// Execute does not panic with a nil dereference or reflect's "call of nil function".
func TestDemoC12NilFunctionCall(t *testing.T) {
	for _, src := range []string{`{{ .F() }}`, `{{ .J() }}`, `{{ "x" | .F }}`, `{{ .J: 1 }}`} {
		l := NewInMemLoader()
		set := NewSet(l)
		l.Set("/a.jet", src)
		tt, err := set.GetTemplate("/a.jet")
		if err != nil {
			t.Fatal(err)
		}
		func() {
			defer func() {
				if r := recover(); r != nil {
					t.Fatalf("%s: Execute panicked: %v", src, r)
				}
			}()
			var buf bytes.Buffer
			err := tt.Execute(&buf, nil, &demoC12Funcs{})
			if err == nil || !strings.Contains(err.Error(), `"/a.jet":1`) {
				t.Fatalf("%s: want an error naming file and line, got %v", src, err)
			}
		}()
	}
}
