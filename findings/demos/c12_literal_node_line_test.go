package jet

import (
	"bytes"
	"strings"
	"testing"
)

// C12: errors raised on literal operands and on commands name the 1-based line of the failing action, not line 0.
func TestDemoC12LiteralNodeLine(t *testing.T) {
	for _, src := range []string{"x\n{{ \"a\" * 2 }}", "x\n{{ 1: 2 }}", "x\n{{ true / 2 }}", "x\n{{ nil * 2 }}", "x\n{{ -\"a\" }}"} {
		l := NewInMemLoader()
		set := NewSet(l)
		l.Set("/a.jet", src)
		tt, err := set.GetTemplate("/a.jet")
		if err != nil {
			t.Fatal(err)
		}
		var buf bytes.Buffer
		err = tt.Execute(&buf, nil, nil)
		if err == nil || !strings.Contains(err.Error(), `("/a.jet":2)`) {
			t.Fatalf("%q: want an error naming line 2, got %v", src, err)
		}
	}
}
