package jet

import (
	"bytes"
	"strings"
	"testing"
)

// C05/C12: a nil value of the interface types Ranger and Renderer (a struct field that was never set) is a range
// subject of the wrong kind / a nil value to print, not a crash: the type of the field implements the interface, the
// value holds nothing, and the type assertion on Interface() used to panic out of Execute.
func TestDemoC05NilRangerField(t *testing.T) {
	type holder struct {
		R  Ranger
		Rd Renderer
	}
	for _, c := range []struct {
		src     string
		wantErr bool
	}{{"a\n{{range h.R}}x{{else}}E{{end}}b", true}, {"a{{ h.Rd }}b", false}} {
		func() {
			defer func() {
				if r := recover(); r != nil {
					t.Errorf("%q: Execute panicked: %v", c.src, r)
				}
			}()
			set := NewSet(NewInMemLoader())
			tt, err := set.Parse("/a.jet", c.src)
			if err != nil {
				t.Fatal(err)
			}
			var buf bytes.Buffer
			err = tt.Execute(&buf, VarMap{}.Set("h", holder{}), nil)
			if c.wantErr && (err == nil || !strings.Contains(err.Error(), `"/a.jet":2`)) {
				t.Errorf("%q: output %q, error %v", c.src, buf.String(), err)
			}
			if !c.wantErr && err != nil {
				t.Errorf("%q: output %q, error %v", c.src, buf.String(), err)
			}
		}()
	}
}
