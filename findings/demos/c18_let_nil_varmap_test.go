package jet

import (
	"bytes"
	"reflect"
	"testing"
)

// C18/C12: Let and LetGlobal called from a function must work at any call site, also when Execute got a nil VarMap.
func TestDemoC18LetNilVarMap(t *testing.T) {
	l := NewInMemLoader()
	set := NewSet(l)
	set.AddGlobalFunc("bind", func(a Arguments) reflect.Value {
		a.Runtime().Let("x", "X")
		a.Runtime().LetGlobal("g", "G")
		return reflect.ValueOf("")
	})
	l.Set("/a.jet", `{{bind()}}{{x}}{{g}}`)
	ta, err := set.GetTemplate("/a.jet")
	if err != nil {
		t.Fatal(err)
	}
	var buf bytes.Buffer
	if err := ta.Execute(&buf, nil, nil); err != nil {
		t.Fatal(err)
	}
	if buf.String() != "XG" {
		t.Fatalf("got %q want %q", buf.String(), "XG")
	}
}
