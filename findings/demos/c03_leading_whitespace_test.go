package jet

import (
	"bytes"
	"testing"
)

// C03: text outside actions appears byte for byte; only whitespace-only text next to leading extends/import
// clauses is dropped. Whitespace before the first action of a template without such clauses is text like any other.
func TestDemoC03LeadingWhitespace(t *testing.T) {
	l := NewInMemLoader()
	set := NewSet(l)
	l.Set("/plain.jet", " \n\t{{ 1 }} x")
	l.Set("/only.jet", "  \n")
	l.Set("/base.jet", " B{{block b()}}b{{end}}")
	l.Set("/child.jet", "  \n{{extends \"/base.jet\"}}\n  \n{{block b()}}c{{end}}")
	for name, want := range map[string]string{"/plain.jet": " \n\t1 x", "/only.jet": "  \n", "/child.jet": " Bc"} {
		tt, err := set.GetTemplate(name)
		if err != nil {
			t.Fatal(err)
		}
		var buf bytes.Buffer
		if err := tt.Execute(&buf, nil, nil); err != nil || buf.String() != want {
			t.Fatalf("%s: got %q, %v; want %q", name, buf.String(), err, want)
		}
	}
}
