package jet

import (
	"bytes"
	"testing"
)

// C03: the right trim marker must work for user-configured delimiters.
func TestDemoC03TrimCustomDelims(t *testing.T) {
	set := NewSet(NewInMemLoader(), WithDelims("[[", "]]"))
	tt, err := set.Parse("/x.jet", "a  [[- 1 -]]  b")
	if err != nil {
		t.Fatalf("parse: %v", err)
	}
	var buf bytes.Buffer
	if err := tt.Execute(&buf, nil, nil); err != nil {
		t.Fatal(err)
	}
	if buf.String() != "a1b" {
		t.Fatalf("got %q want %q", buf.String(), "a1b")
	}
}
