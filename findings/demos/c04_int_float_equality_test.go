package jet

import (
	"bytes"
	"testing"
)

// C04: any floating-point operand makes the operation floating-point - also for == and !=. A Go integer on the
// left used to truncate the float on the right: {{ i == 1.5 }} with i = 1 rendered true while {{ 1.5 == i }}
// rendered false and {{ i < 1.5 }} true.
func TestDemoC04IntFloatEquality(t *testing.T) {
	l := NewInMemLoader()
	set := NewSet(l)
	l.Set("/a.jet", `{{ i == 1.5 }} {{ i != 1.5 }} {{ u == 1.5 }} {{ 1.5 == i }} {{ i == 1 }} {{ u == 1.0 }} {{ i == u }}`)
	tt, err := set.GetTemplate("/a.jet")
	if err != nil {
		t.Fatal(err)
	}
	var buf bytes.Buffer
	vars := VarMap{}.Set("i", 1).Set("u", uint(1))
	if err := tt.Execute(&buf, vars, nil); err != nil || buf.String() != "false true false false true true true" {
		t.Fatalf("got %q, %v", buf.String(), err)
	}
}
