package jet

import (
	"bytes"
	"testing"
)

// C03: a comment contributes nothing, also when the action delimiter starts with a different byte.
func TestDemoC03CommentAfterLastAction(t *testing.T) {
	set := NewSet(NewInMemLoader(), WithDelims("[[", "]]"))
	tt, err := set.Parse("/x.jet", "a [[1]] b {* c *} d")
	if err != nil {
		t.Fatalf("parse: %v", err)
	}
	var buf bytes.Buffer
	if err := tt.Execute(&buf, nil, nil); err != nil {
		t.Fatal(err)
	}
	if buf.String() != "a 1 b  d" {
		t.Fatalf("got %q want %q", buf.String(), "a 1 b  d")
	}
}
