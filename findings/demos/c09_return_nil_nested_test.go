package jet

import (
	"bytes"
	"testing"
)

// C09: exec evaluates to the value given to the LAST return statement executed - also when that statement is
// `return nil` inside an if, range, try, block or include after an earlier return with a value.
func TestDemoC09ReturnNilNested(t *testing.T) {
	for _, c := range []struct{ sub, want string }{
		{`{{return "a"}}{{if true}}{{return nil}}{{end}}`, "[|true]"},
		{`{{return "a"}}{{range .}}{{return nil}}{{end}}`, "[|true]"},
		{`{{return "a"}}{{try}}{{return nil}}{{end}}`, "[|true]"},
		{`{{return "a"}}{{return nil}}`, "[|true]"},
		{`{{return "a"}}{{if true}}x{{end}}`, "[a|false]"},
		{`{{return nil}}{{if true}}{{return "b"}}{{end}}`, "[b|false]"},
		{`x`, "[|true]"},
	} {
		l := NewInMemLoader()
		set := NewSet(l)
		l.Set("/sub.jet", c.sub)
		l.Set("/main.jet", `{{ v := exec("/sub.jet", .) }}[{{ v }}|{{ v == nil }}]`)
		tt, err := set.GetTemplate("/main.jet")
		if err != nil {
			t.Fatal(err)
		}
		var buf bytes.Buffer
		if err := tt.Execute(&buf, nil, []int{1, 2}); err != nil || buf.String() != c.want {
			t.Errorf("exec of %s gave %q, %v; want %q", c.sub, buf.String(), err, c.want)
		}
	}
}
