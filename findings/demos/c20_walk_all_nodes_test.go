package utils

import (
	"testing"
	"time"

	"github.com/CloudyKit/jet/v6"
)

// C20: Walk reaches every node kind the parser can produce, terminates and never panics.
func TestDemoC20WalkAllNodes(t *testing.T) {
	l := jet.NewInMemLoader()
	set := jet.NewSet(l)
	l.Set("/inc.jet", "x")
	l.Set("/a.jet", `{{block b(p=1) .}}B{{yield content}}{{end}}{{try}}{{ -x }}{{ s[1:] }}{{ s[:2] }}{{ f(_) | g }}{{catch e}}{{e}}{{end}}{{include "/inc.jet" .}}{{return 1}}`)
	tt, err := set.GetTemplate("/a.jet")
	if err != nil {
		t.Fatal(err)
	}
	seen := map[jet.NodeType]int{}
	done := make(chan struct{})
	var perr interface{}
	go func() {
		defer close(done)
		defer func() { perr = recover() }()
		n := 0
		Walk(tt, VisitorFunc(func(vc VisitorContext, node jet.Node) {
			n++
			if n > 10000 {
				panic("walk does not terminate")
			}
			seen[node.Type()]++
			vc.Visit(node)
		}))
	}()
	select {
	case <-done:
	case <-time.After(5 * time.Second):
		t.Fatal("Walk did not terminate")
	}
	if perr != nil {
		t.Fatalf("Walk panicked: %v", perr)
	}
	if seen[jet.NodeUnderscore] != 1 || seen[jet.NodeReturn] != 1 || seen[jet.NodeTry] != 1 || seen[jet.NodeInclude] != 1 {
		t.Fatalf("nodes missed: %v", seen)
	}
}
