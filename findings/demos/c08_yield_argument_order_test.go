package jet

import (
	"bytes"
	"testing"
)

// C08: named yield arguments are matched by name in any order. They used to be evaluated one after another inside
// the freshly pushed parameter scope, so a later argument saw an earlier one and the order changed the result.
func TestDemoC08YieldArgumentOrder(t *testing.T) {
	for _, c := range []struct{ src, want string }{
		{`{{block foo(a="da", b="db")}}{{a}}{{b}}{{end}}|{{yield foo(a=b, b=a)}}|{{yield foo(b=a, a=b)}}`, "dadb|BA|BA"},
		{`{{block foo(a="da", b="db")}}{{a}}{{b}}{{end}}|{{yield foo(a="x", b=a)}}|{{yield foo(b=a)}}`, "dadb|xA|daA"},
	} {
		set := NewSet(NewInMemLoader())
		tt, err := set.Parse("/a.jet", c.src)
		if err != nil {
			t.Fatal(err)
		}
		var buf bytes.Buffer
		if err := tt.Execute(&buf, VarMap{}.Set("a", "A").Set("b", "B"), nil); err != nil || buf.String() != c.want {
			t.Errorf("%s: %q, %v; want %q", c.src, buf.String(), err, c.want)
		}
	}
}
