package jet

import (
	"bytes"
	"testing"
)

// C14/C12: an argument that cannot be converted to the parameter type is an error. A slice is convertible to an array
// type as far as the types go, but converting a slice that is shorter than the array panics with a plain string, which
// Execute re-panics; the same holds for a slice used as key of a map keyed by arrays.
func TestDemoC14ShortSliceToArrayArgument(t *testing.T) {
	arr4 := func(a [4]int) int { return a[0] + a[3] }
	for _, c := range []struct {
		src, want string
		wantErr   bool
	}{{`{{ arr4(short) }}`, "", true}, {`{{ short | arr4 }}`, "", true}, {`{{ arr4(long) }}`, "5", false}, {`{{ m[short] }}`, "", true}, {`{{ m[key] }}`, "found", false}} {
		func() {
			defer func() {
				if r := recover(); r != nil {
					t.Errorf("%s: Execute panicked: %v", c.src, r)
				}
			}()
			set := NewSet(NewInMemLoader())
			tt, err := set.Parse("/a.jet", c.src)
			if err != nil {
				t.Fatal(err)
			}
			var buf bytes.Buffer
			vars := VarMap{}.Set("arr4", arr4).Set("short", []int{1, 2}).Set("long", []int{1, 2, 3, 4, 5}).Set("m", map[[2]int]string{{1, 2}: "found"}).Set("key", []int{1, 2, 3})
			vars.Set("short", []int{1})
			err = tt.Execute(&buf, vars, nil)
			if c.wantErr != (err != nil) || buf.String() != c.want {
				t.Errorf("%s: output %q, error %v", c.src, buf.String(), err)
			}
		}()
	}
}
