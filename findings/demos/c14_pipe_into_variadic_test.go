package jet

import (
	"bytes"
	"fmt"
	"testing"
)

// C14: x | f is f(x) also when f is purely variadic: the piped value is the first element of the variadic tail.
func TestDemoC14PipeIntoVariadic(t *testing.T) {
	vars := VarMap{}.Set("v", func(a ...string) string { return fmt.Sprint(len(a), a) })
	for src, want := range map[string]string{`{{ "a" | v }}`: `1 [a]`, `{{ v("a") }}`: `1 [a]`, `{{ "a" | v: "b" }}`: `2 [a b]`, `{{ "a" | v("b", _) }}`: `2 [b a]`} {
		l := NewInMemLoader()
		set := NewSet(l)
		l.Set("/a.jet", src)
		tt, err := set.GetTemplate("/a.jet")
		if err != nil {
			t.Fatal(err)
		}
		func() {
			defer func() {
				if r := recover(); r != nil {
					t.Fatalf("%s: Execute panicked: %v", src, r)
				}
			}()
			var buf bytes.Buffer
			if err := tt.Execute(&buf, vars, nil); err != nil || buf.String() != want {
				t.Fatalf("%s: got %q, %v; want %q", src, buf.String(), err, want)
			}
		}()
	}
}
