package jet

import (
	"bytes"
	"strings"
	"testing"
)

// C12/C04: an integer division or modulo by zero is a failure Jet can detect: Execute returns an error naming
// file and line instead of panicking with a runtime error.
func TestDemoC12DivisionByZero(t *testing.T) {
	for _, src := range []string{"{{ a / b }}", "{{ a % b }}", "\n{{ a / u }}", "{{ 1 % 0 }}"} {
		l := NewInMemLoader()
		set := NewSet(l)
		l.Set("/a.jet", src)
		tt, err := set.GetTemplate("/a.jet")
		if err != nil {
			t.Fatal(err)
		}
		func() {
			defer func() {
				if r := recover(); r != nil {
					t.Fatalf("%s: Execute panicked: %v", src, r)
				}
			}()
			var buf bytes.Buffer
			err := tt.Execute(&buf, VarMap{}.Set("a", 1).Set("b", 0).Set("u", uint(0)), nil)
			if err == nil || !strings.Contains(err.Error(), `"/a.jet"`) {
				t.Fatalf("%s: want an error naming the file, got %v", src, err)
			}
		}()
	}
}
