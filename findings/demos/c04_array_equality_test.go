package jet

import (
	"bytes"
	"testing"
)

// C04: == on arrays compares element-wise (equal arrays are equal), and comparing an array with a shorter
// sequence yields false instead of indexing past its end.
func TestDemoC04ArrayEquality(t *testing.T) {
	l := NewInMemLoader()
	set := NewSet(l)
	l.Set("/a.jet", `{{ a == b }} {{ a == c }} {{ a != b }} {{ a == short }}`)
	tt, err := set.GetTemplate("/a.jet")
	if err != nil {
		t.Fatal(err)
	}
	defer func() {
		if r := recover(); r != nil {
			t.Fatalf("Execute panicked: %v", r)
		}
	}()
	var buf bytes.Buffer
	vars := VarMap{}.Set("a", [2]int{1, 2}).Set("b", [2]int{1, 2}).Set("c", [2]int{1, 3}).Set("short", []int{1})
	if err := tt.Execute(&buf, vars, nil); err != nil || buf.String() != "true false false false" {
		t.Fatalf("got %q, %v", buf.String(), err)
	}
}
