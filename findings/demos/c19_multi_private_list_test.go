package multi

import (
	"io/ioutil"
	"testing"

	"github.com/CloudyKit/jet/v6"
)

// C19: a Multi answers from the first loader, in ITS construction order, that has the path. NewLoader used to keep
// the caller's variadic slice, so two Multis built from one slice with spare capacity shared a backing array and
// AddLoaders on one changed the other.
func TestDemoC19MultiPrivateList(t *testing.T) {
	mem := func(path, content string) jet.Loader {
		l := jet.NewInMemLoader()
		l.Set(path, content)
		return l
	}
	a := mem("/other.jet", "a")
	ls := make([]jet.Loader, 1, 4)
	ls[0] = a
	m1 := NewLoader(ls...)
	m2 := NewLoader(ls...)
	m1.AddLoaders(mem("/p.jet", "from x"))
	m2.AddLoaders(mem("/p.jet", "from y"))
	f, err := m1.Open("/p.jet")
	if err != nil {
		t.Fatal(err)
	}
	b, _ := ioutil.ReadAll(f)
	if string(b) != "from x" {
		t.Fatalf("m1 was built as (a, x) but answered %q", b)
	}
	ls[0] = mem("/other.jet", "changed")
	if f, err := m1.Open("/other.jet"); err == nil {
		if b, _ := ioutil.ReadAll(f); string(b) != "a" {
			t.Fatalf("changing the caller's slice changed the Multi: %q", b)
		}
	}
}
