package jet

import (
	"bytes"
	"testing"
)

// C13: after a caught failure inside range/let/yield-with-content, rendering continues with the same
// context, variables and block content as before the try statement.
func TestDemoC13TryRestoresState(t *testing.T) {
	l := NewInMemLoader()
	set := NewSet(l)
	l.Set("/t.jet", `{{block b()}}<{{yield content}}>{{end}}{{x := "outer"}}{{try}}{{range i, v := s}}{{x := "inner"}}{{yield b() content}}{{nope}}{{end}}{{end}}{{catch}}C{{end}}[{{.}}|{{x}}|{{isset(v)}}]`)
	tt, err := set.GetTemplate("/t.jet")
	if err != nil {
		t.Fatal(err)
	}
	var buf bytes.Buffer
	if err := tt.Execute(&buf, VarMap{}.Set("s", []int{7}), "D"); err != nil {
		t.Fatal(err)
	}
	if got, want := buf.String(), "<>C[D|outer|false]"; got != want {
		t.Fatalf("got %q want %q", got, want)
	}
}
