package jet

import (
	"bytes"
	"testing"
)

// C07 (known finding): a variable keeps the value it was given until it is rebound; values captured from the
// loop variables of ints() are addressable views of the ranger's own counters and change afterwards.
func TestDemoC07IntsRangerAlias(t *testing.T) {
	l := NewInMemLoader()
	set := NewSet(l)
	l.Set("/a.jet", `{{x := 100}}{{range i, v := ints(0,3)}}{{if i == 0}}{{x = v}}{{end}}{{end}}{{x}}`)
	tt, err := set.GetTemplate("/a.jet")
	if err != nil {
		t.Fatal(err)
	}
	var buf bytes.Buffer
	if err := tt.Execute(&buf, nil, nil); err != nil {
		t.Fatal(err)
	}
	if got, want := buf.String(), "0"; got != want {
		t.Fatalf("got %q want %q", got, want)
	}
}
