package jet

import (
	"bytes"
	"testing"
)

// C05: a condition is truthy unless it is false, 0, the empty string or nil - also when the value reaches the
// condition wrapped in an interface, as '.' does inside {{range}} over a []interface{}.
func TestDemoC05TruthinessThroughInterface(t *testing.T) {
	for _, c := range []struct{ src, want string }{
		{`{{range .}}{{if .}}T{{else}}F{{end}}{{end}}`, "FFFFT"},
		{`{{range _, v := .}}{{if v}}T{{else}}F{{end}}{{end}}`, "FFFFT"},
		{`{{range .}}{{ . ? "T" : "F" }}{{end}}`, "FFFFT"},
		{`{{range .}}{{if !.}}F{{else}}T{{end}}{{end}}`, "FFFFT"},
		{`{{range .}}{{if . || false}}T{{else}}F{{end}}{{end}}`, "FFFFT"},
	} {
		set := NewSet(NewInMemLoader())
		tt, err := set.Parse("/a.jet", c.src)
		if err != nil {
			t.Fatal(err)
		}
		var buf bytes.Buffer
		if err := tt.Execute(&buf, nil, []interface{}{0, "", false, nil, 1}); err != nil || buf.String() != c.want {
			t.Errorf("%s rendered %q, %v; want %q", c.src, buf.String(), err, c.want)
		}
	}
}
