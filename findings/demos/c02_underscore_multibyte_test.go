package jet

import "testing"

// C02: `{{_é}}` must yield a template or an error, never a crash in the lexer goroutine.
func TestDemoC02UnderscoreMultibyte(t *testing.T) {
	set := NewSet(NewInMemLoader())
	_, err := set.Parse("/x.jet", "{{_é}}")
	t.Logf("err=%v", err)
}
