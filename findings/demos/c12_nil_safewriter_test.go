package jet

import (
	"bytes"
	"strings"
	"testing"
)

// C12: a nil SafeWriter as call target is a call of a nil function - an error naming file and line - in command and
// in pipe position; it used to be installed and the first write through it panicked out of Execute.
func TestDemoC12NilSafeWriter(t *testing.T) {
	for _, src := range []string{"a\n{{ \"x\" | nw }}b", "a\n{{ nw: \"x\" }}b"} {
		func() {
			defer func() {
				if r := recover(); r != nil {
					t.Errorf("%q: Execute panicked: %v", src, r)
				}
			}()
			set := NewSet(NewInMemLoader())
			tt, err := set.Parse("/a.jet", src)
			if err != nil {
				t.Fatal(err)
			}
			var buf bytes.Buffer
			err = tt.Execute(&buf, VarMap{}.SetWriter("nw", nil), nil)
			if err == nil || !strings.Contains(err.Error(), `"/a.jet":2`) || buf.String() != "a\n" {
				t.Errorf("%q: output %q, error %v", src, buf.String(), err)
			}
		}()
	}
}
