package jet

import (
	"bytes"
	"testing"
)

// C12/C07: an evaluation error inside {{yield content}} is returned as an error. The content closure used to leave the
// caller's (shallower) scope current when it failed, so the lists around the yield popped scopes they had not
// pushed: with two scoped lists around the yield, Execute crashed with a nil dereference in releaseScope.
func TestDemoC12ErrorInsideYieldContent(t *testing.T) {
	l := NewInMemLoader()
	set := NewSet(l)
	l.Set("/a.jet", `{{block b()}}{{x := 1}}{{if true}}{{y := 2}}{{yield content}}{{end}}{{end}}{{yield b() content}}{{ undefinedVariable }}{{end}}`)
	tt, err := set.GetTemplate("/a.jet")
	if err != nil {
		t.Fatal(err)
	}
	defer func() {
		if r := recover(); r != nil {
			t.Fatalf("Execute panicked: %v", r)
		}
	}()
	var buf bytes.Buffer
	err = tt.Execute(&buf, nil, nil)
	t.Logf("out=%q err=%v", buf.String(), err)
	if err == nil {
		t.Fatal("want an error")
	}
}
