package jet

import (
	"bytes"
	"strings"
	"testing"
)

// C12: an evaluation error names the file and line of the failing action. A yield that names a parameter without
// giving it a value used to be reported on the block it yields (the block's file and line), not on the yield.
func TestDemoC12YieldArgumentErrorLine(t *testing.T) {
	l := NewInMemLoader()
	set := NewSet(l)
	l.Set("/lib.jet", `{{block foo(a)}}{{a}}{{end}}`)
	l.Set("/m.jet", "{{import \"/lib.jet\"}}x\ny\n{{yield foo(b)}}")
	tt, err := set.GetTemplate("/m.jet")
	if err != nil {
		t.Fatal(err)
	}
	var buf bytes.Buffer
	err = tt.Execute(&buf, nil, nil)
	if err == nil || !strings.Contains(err.Error(), `"/m.jet":3`) {
		t.Fatalf("output %q, error %v; want an error naming \"/m.jet\":3", buf.String(), err)
	}
}
