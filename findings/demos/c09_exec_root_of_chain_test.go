package jet

import (
	"bytes"
	"testing"
)

// C09/C08: exec and includeIfExists run a template "the same way" as include: the root ancestor of its extends chain.
func TestDemoC09ExecRootOfChain(t *testing.T) {
	l := NewInMemLoader()
	set := NewSet(l)
	l.Set("/base.jet", `BASE[{{yield body()}}]{{return "base"}}`)
	l.Set("/mid.jet", `{{extends "/base.jet"}}MID{{block body()}}mid{{end}}{{return "mid"}}`)
	l.Set("/leaf.jet", `{{extends "/mid.jet"}}LEAF{{block body()}}leaf{{end}}`)
	l.Set("/main.jet", `{{includeIfExists("/leaf.jet")}}|{{exec("/leaf.jet")}}`)
	tt, err := set.GetTemplate("/main.jet")
	if err != nil {
		t.Fatal(err)
	}
	var buf bytes.Buffer
	if err := tt.Execute(&buf, nil, nil); err != nil {
		t.Fatal(err)
	}
	if got, want := buf.String(), "BASE[leaf]|base"; got != want {
		t.Fatalf("got %q want %q", got, want)
	}
}
