package jet

import "testing"

// C02: any source yields a template or an error, never a panic: {{catch +}} made parseCatch dereference nil.
func TestDemoC02CatchWithoutIdentifier(t *testing.T) {
	set := NewSet(NewInMemLoader())
	_, err := set.Parse("/x.jet", "{{try}}x{{catch +}}y{{end}}")
	if err == nil {
		t.Fatal("expected a parse error")
	}
}
