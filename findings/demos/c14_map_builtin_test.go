package jet

import (
	"bytes"
	"testing"
)

type demoC14Key string

// C14/C12: map() with an odd number of arguments is an error, not a panic; a key that is convertible to string
// (the builtin checks exactly that) is stored under its converted value.
func TestDemoC14MapBuiltin(t *testing.T) {
	run := func(src string) (out string, err error) {
		l := NewInMemLoader()
		set := NewSet(l)
		l.Set("/a.jet", src)
		tt, err := set.GetTemplate("/a.jet")
		if err != nil {
			t.Fatal(err)
		}
		defer func() {
			if r := recover(); r != nil {
				t.Fatalf("%s: Execute panicked: %v", src, r)
			}
		}()
		var buf bytes.Buffer
		err = tt.Execute(&buf, VarMap{}.Set("k", demoC14Key("named")), nil)
		return buf.String(), err
	}
	if _, err := run(`{{ map("a") }}`); err == nil {
		t.Fatal("map with an incomplete pair: want an error")
	}
	if out, err := run(`{{ m := map(k, 1, "b", 2) }}{{ m.named }}{{ m["b"] }}{{ len(m) }}`); err != nil || out != "122" {
		t.Fatalf("got %q, %v", out, err)
	}
}
