package astcheck

// Sanity tests (not proofs) of the hand-written well-formedness axioms of /repo/ast_contracts_verif.go: every fact the
// interpreter contracts assume about a parsed tree (WF, WFL, WFSet, WFPipe, WFCmd, WFParams) is checked on the trees the
// real parser builds for a corpus of templates - the repository's testData, hand-written templates covering every
// construct, and a generated family of expressions and statements. A failure here means an axiom is false.

import (
	"fmt"
	"os"
	"path/filepath"
	"reflect"
	"strings"
	"testing"

	"github.com/CloudyKit/jet/v6"
	"github.com/CloudyKit/jet/v6/utils"
)

func isNilNode(n interface{}) bool {
	if n == nil {
		return true
	}
	v := reflect.ValueOf(n)
	return v.Kind() == reflect.Ptr && v.IsNil()
}

func checkNode(t *testing.T, src string, node jet.Node) {
	bad := func(format string, args ...interface{}) {
		t.Errorf("%s\n  in %q", fmt.Sprintf(format, args...), src)
	}
	if isNilNode(node) {
		bad("nil node handed to the visitor")
		return
	}
	params := func(what string, p *jet.BlockParameterList) {
		if p == nil {
			bad("%s: nil parameter list", what)
		}
	}
	list := func(what string, l *jet.ListNode, mayBeNil bool) {
		if l == nil {
			if !mayBeNil {
				bad("%s: nil list", what)
			}
			return
		}
		for i, n := range l.Nodes {
			if isNilNode(n) {
				bad("%s: nil element %d", what, i)
			}
		}
	}
	set := func(what string, s *jet.SetNode) {
		if len(s.Left) < 1 || len(s.Right) < 1 {
			bad("%s: SetNode with %d targets and %d values", what, len(s.Left), len(s.Right))
		}
		if s.IndexExprGetLookup && !(len(s.Left) == 2 && len(s.Right) == 1) {
			bad("%s: lookup assignment with %d targets and %d values", what, len(s.Left), len(s.Right))
		}
		for _, e := range append(append([]jet.Expression{}, s.Left...), s.Right...) {
			if isNilNode(e) {
				bad("%s: nil operand in SetNode", what)
			}
		}
		if s.Let {
			for _, e := range s.Left {
				if e.Type() != jet.NodeIdentifier && e.Type() != jet.NodeUnderscore {
					bad("%s: := with a target of type %v", what, e.Type())
				}
			}
		}
		for _, e := range s.Left {
			switch e.Type() {
			case jet.NodeIdentifier, jet.NodeUnderscore, jet.NodeChain, jet.NodeField, jet.NodeIndexExpr:
			default:
				bad("%s: assignment target of type %v", what, e.Type())
			}
		}
	}
	nonNil := func(what string, e jet.Expression) {
		if isNilNode(e) {
			bad("%s is nil", what)
		}
	}
	switch n := node.(type) {
	case *jet.ListNode:
		if n.Type() != jet.NodeList {
			bad("tag of ListNode is %v", n.Type())
		}
		list("list", n, false)
	case *jet.ActionNode:
		if n.Set == nil && n.Pipe == nil {
			bad("action with neither assignment nor pipeline")
		}
		if n.Set != nil {
			set("action", n.Set)
			if !n.Set.IndexExprGetLookup && len(n.Set.Left) != len(n.Set.Right) {
				bad("unbalanced assignment: %d targets, %d values", len(n.Set.Left), len(n.Set.Right))
			}
		}
	case *jet.PipeNode:
		if len(n.Cmds) < 1 {
			bad("empty pipeline")
		}
		for _, c := range n.Cmds {
			if c == nil {
				bad("nil command")
			}
		}
	case *jet.CommandNode:
		nonNil("command base expression", n.BaseExpr)
		for _, e := range n.Exprs {
			nonNil("command argument", e)
		}
	case *jet.CallExprNode:
		nonNil("call base expression", n.BaseExpr)
		for _, e := range n.Exprs {
			nonNil("call argument", e)
		}
	case *jet.ChainNode:
		nonNil("chain base", n.Node)
		if len(n.Field) < 1 {
			bad("chain without fields")
		}
	case *jet.FieldNode:
		if len(n.Ident) < 1 {
			bad("field node without identifiers")
		}
	case *jet.IfNode:
		nonNil("if condition", n.Expression)
		list("if body", n.List, false)
		list("else body", n.ElseList, true)
		if n.Set != nil {
			set("if header", n.Set)
		}
	case *jet.RangeNode:
		if n.Set != nil {
			set("range header", n.Set)
			if len(n.Set.Left) < 1 || len(n.Set.Left) > 2 || len(n.Set.Right) != 1 {
				bad("range header with %d targets and %d values", len(n.Set.Left), len(n.Set.Right))
			}
		} else {
			nonNil("range collection", n.Expression)
		}
		list("range body", n.List, false)
		list("range else", n.ElseList, true)
	case *jet.BlockNode:
		params("block", n.Parameters)
		list("block body", n.List, false)
		list("block content", n.Content, true)
	case *jet.YieldNode:
		if !n.IsContent {
			params("yield", n.Parameters)
		}
		list("yield content", n.Content, true)
	case *jet.IncludeNode:
		nonNil("include name", n.Name)
	case *jet.AdditiveExprNode:
		nonNil("additive right operand", n.Right)
	case *jet.MultiplicativeExprNode:
		nonNil("left operand", n.Left)
		nonNil("right operand", n.Right)
	case *jet.LogicalExprNode:
		nonNil("left operand", n.Left)
		nonNil("right operand", n.Right)
	case *jet.ComparativeExprNode:
		nonNil("left operand", n.Left)
		nonNil("right operand", n.Right)
	case *jet.NumericComparativeExprNode:
		nonNil("left operand", n.Left)
		nonNil("right operand", n.Right)
	case *jet.NotExprNode:
		nonNil("operand of not", n.Expr)
	case *jet.TernaryExprNode:
		nonNil("ternary condition", n.Boolean)
		nonNil("ternary left", n.Left)
		nonNil("ternary right", n.Right)
	case *jet.IndexExprNode:
		nonNil("index base", n.Base)
		nonNil("index", n.Index)
	case *jet.SliceExprNode:
		nonNil("slice base", n.Base)
	case *jet.ReturnNode:
		nonNil("return value", n.Value)
	case *jet.TryNode:
		list("try body", n.List, false)
	}
	// block parameters: entries hold a name; (a default or argument may be missing)
	var bp *jet.BlockParameterList
	switch n := node.(type) {
	case *jet.BlockNode:
		bp = n.Parameters
	case *jet.YieldNode:
		bp = n.Parameters
	}
	if bp != nil {
		for _, p := range bp.List {
			if p.Expression != nil && isNilNode(p.Expression) {
				bad("typed-nil parameter expression")
			}
		}
	}
}

func walkAndCheck(t *testing.T, src string, tt *jet.Template) int {
	n := 0
	utils.Walk(tt, utils.VisitorFunc(func(vc utils.VisitorContext, node jet.Node) {
		n++
		checkNode(t, src, node)
		vc.Visit(node)
	}))
	return n
}

func corpus() []string {
	srcs := []string{
		`{{ a }}{{ a.b }}{{ a.b.c }}{{ .x }}{{ .x.y }}{{ a[1] }}{{ a["k"].f }}{{ a[1:2] }}{{ a[:2] }}{{ a[1:] }}{{ a[:] }}`,
		`{{ f() }}{{ f(1) }}{{ f(1, "a", x) }}{{ f: 1, 2 }}{{ x | f }}{{ x | f | g }}{{ x | f: 1 }}{{ x | f(1, _) }}{{ a.m() }}{{ a.m(1).n }}{{ a[0](1) }}`,
		`{{ x := 1 }}{{ x = 2 }}{{ a, b := 1, 2 }}{{ a, b = b, a }}{{ v, ok := m["k"] }}{{ v, ok = m["k"] }}{{ _ := f() }}{{ _ = 1 }}{{ a.b = 1 }}{{ .f = 2 }}`,
		`{{ if x }}a{{ end }}{{ if x }}a{{ else }}b{{ end }}{{ if x }}a{{ else if y }}b{{ else }}c{{ end }}{{ if v := f(); v }}a{{ end }}{{ if v, ok := m["k"]; ok }}a{{ else if w := 1; w }}b{{ end }}`,
		`{{ range x }}a{{ end }}{{ range x }}a{{ else }}b{{ end }}{{ range i := x }}{{ end }}{{ range i, v := x }}{{ end }}{{ range i, v = x }}{{ end }}{{ range _, v := x }}{{ end }}{{ range k := ints(1,3) }}{{ end }}`,
		`{{ block b() }}x{{ end }}{{ block c(a, b=1) . }}x{{ yield content }}y{{ content }}z{{ end }}{{ yield b() }}{{ yield c(a=1) x }}{{ yield c(b=2, a=3) content }}w{{ end }}{{ yield content }}{{ yield content x }}`,
		`{{ include "a" }}{{ include "a" x }}{{ include n }}{{ include f(1) . }}{{ return 1 }}{{ return a + b }}{{ try }}a{{ end }}{{ try }}a{{ catch }}b{{ end }}{{ try }}a{{ catch e }}{{ e }}{{ end }}`,
		`{{ 1 + 2 * 3 - 4 / 5 % 6 }}{{ -x }}{{ +x }}{{ - 5 }}{{ !x }}{{ not x }}{{ !!x }}{{ a && b || c }}{{ a and b or not c }}{{ a == b }}{{ a != b }}{{ a < b }}{{ a <= b }}{{ a > b }}{{ a >= b }}{{ a ? b : c }}{{ a ? b : c ? d : e }}{{ (a + b) * c }}{{ (a).b }}{{ "s" + 1 }}{{ 'c' }}{{ 1.5e3 }}{{ 0x1f }}{{ nil }}{{ true }}{{ false }}`,
		`{{ isset(a, b.c, d["k"], .e) }}{{ len(x) }}{{ map("a", 1) }}{{ slice(1, 2) }}{{ array(1) }}{{ exec("/t", x) }}{{ includeIfExists("/t") }}{{ x | raw }}{{ unsafe: x }}{{ x | safeHtml }}{{ dump() }}`,
		`{* comment *}text {{- x -}} text{{ x
}}`,
	}
	ops := []string{"+", "-", "*", "/", "%", "==", "!=", "<", "<=", ">", ">=", "&&", "||"}
	atoms := []string{"a", "1", `"s"`, "a.b", "f(1)", "a[0]", "(a)", "-a", "!a", ".", ".x", "nil", "true"}
	for _, op := range ops {
		for _, x := range atoms {
			for _, y := range atoms[:6] {
				srcs = append(srcs, "{{ "+x+" "+op+" "+y+" }}{{ "+x+op+y+" }}{{ v := "+x+" "+op+" "+y+" }}{{ f("+x+" "+op+" "+y+", "+y+") }}{{ if "+x+" "+op+" "+y+" }}{{ end }}")
			}
		}
	}
	return srcs
}

func TestASTAxiomsOnParsedTemplates(t *testing.T) {
	total := 0
	for i, src := range corpus() {
		set := jet.NewSet(jet.NewInMemLoader())
		tt, err := set.Parse(fmt.Sprintf("/t%d.jet", i), src)
		if err != nil {
			if i < 10 {
				t.Errorf("corpus template %d does not parse: %v", i, err)
			}
			continue
		}
		total += walkAndCheck(t, src, tt)
	}
	files, _ := filepath.Glob("/repo/testData/*.jet")
	more, _ := filepath.Glob("/repo/testData/*/*.jet")
	for _, f := range append(files, more...) {
		b, err := os.ReadFile(f)
		if err != nil {
			continue
		}
		src := string(b)
		set := jet.NewSet(jet.NewOSFileSystemLoader(filepath.Dir(f)))
		if strings.Contains(f, "custom_delimiters") {
			continue
		}
		tt, err := set.Parse("/"+filepath.Base(f), src)
		if err != nil {
			continue
		}
		total += walkAndCheck(t, f, tt)
	}
	if total < 5000 {
		t.Errorf("only %d nodes checked: the corpus shrank", total)
	}
	t.Logf("%d nodes checked", total)
}
