module astcheck

go 1.16

require github.com/CloudyKit/jet/v6 v6.0.0

replace github.com/CloudyKit/jet/v6 => /repo
