#!/bin/bash
# Machinery QA (not evidence): applies each mutant patch to /repo's working tree, runs the owning checks,
# requires a VIOLATION, and restores the tree. Benign patches must stay green.
# usage: selftest/run.sh [pattern]
cd "$(dirname "$0")/.."
# evidence of these runs (deliberately broken trees) goes to a scratch directory, never to /verif/evidence
export VERIF_EVIDENCE_DIR=$(mktemp -d /tmp/selftest_ev_XXXX)
trap 'rm -rf "$VERIF_EVIDENCE_DIR"' EXIT
PAT=${1:-}
fail=0
if [ -n "$(git -C /repo status --porcelain)" ]; then echo "/repo working tree is not clean"; exit 2; fi
for p in selftest/mutants/*${PAT}*.patch; do
  [ -f "$p" ] || continue
  props=$(grep -m1 '^# expect:' "$p" | sed 's/# expect://')
  [ -z "$props" ] && props=$(grep -l . /dev/null; echo "")
  if ! git -C /repo apply "$PWD/$p" 2>/dev/null; then echo "SKIP $p (does not apply)"; continue; fi
  if [ -z "$props" ]; then props="C02 C03 C04"; fi
  hit=""
  for id in $props; do
    out=$(./check $id 2>&1); rc=$?
    if [ $rc -eq 1 ] && echo "$out" | grep -q "^VIOLATION property=$id"; then hit="$hit $id($(echo "$out" | grep -c '^VIOLATION'))"; fi
  done
  git -C /repo checkout -- . ; git -C /repo clean -fdq
  if [ -n "$hit" ]; then echo "CAUGHT $p by$hit"; else echo "MISSED $p (checked: $props)"; fail=1; fi
done
for p in selftest/benign/*${PAT}*.patch; do
  [ -f "$p" ] || continue
  props=$(grep -m1 '^# expect-green:' "$p" | sed 's/# expect-green://')
  if ! git -C /repo apply "$PWD/$p" 2>/dev/null; then echo "SKIP $p (does not apply)"; continue; fi
  bad=""
  for id in $props; do
    out=$(./check $id 2>&1); rc=$?
    [ $rc -ne 0 ] && bad="$bad $id"
  done
  git -C /repo checkout -- . ; git -C /repo clean -fdq
  if [ -z "$bad" ]; then echo "GREEN $p"; else echo "FALSE-ALARM $p on$bad"; fail=1; fi
done
exit $fail
