#!/bin/bash
# benign_run.sh [dirs...]: behaviour-preserving edits written by sub-agents (selftest/benign_agents/<name>/patch.diff):
# apply each in a scratch worktree of /repo HEAD, run EVERY registered check from a snapshot of /verif, and list the
# checks that report a violation. Every line should end in "green". Machinery QA only.
SNAP=$(mktemp -d /tmp/verif_snapb_XXXX)
(cd /verif && tar cf - --exclude=.git --exclude=replays --exclude=evidence . ) | (cd $SNAP && tar xf -)
cd $SNAP
export JETVC_BIN=$SNAP/bin/jetvc
BASE=$(git -C /repo rev-parse HEAD)
CHECKS=$(python3 -c "import json;print(' '.join(c['property_id'] for c in json.load(open('MANIFEST.json'))['checks']))")
dirs="$@"; [ -z "$dirs" ] && dirs=$(ls -d selftest/benign_agents/*)
one() {
  d=$1
  WT=$(mktemp -d /tmp/wtb_XXXX); rmdir $WT; EV=$(mktemp -d /tmp/evb_XXXX)
  git -C /repo worktree add -q --detach $WT $BASE 2>/dev/null || { echo "$d: cannot create worktree"; return; }
  if ! git -C $WT apply "$PWD/$d/patch.diff" 2>/dev/null; then echo "$d: patch does not apply"; git -C /repo worktree remove --force $WT; rm -rf $EV; return; fi
  alarms=""
  for id in $CHECKS; do
    out=$(VERIF_REPO=$WT VERIF_EVIDENCE_DIR=$EV ./check $id 2>&1); rc=$?
    if [ $rc -ne 0 ]; then alarms="$alarms $id:$(echo "$out" | grep -m1 '^VIOLATION' | sed 's/.*obligation=//' | cut -c1-100)"; fi
  done
  git -C /repo worktree remove --force $WT; rm -rf $EV
  echo "$d: ${alarms:- green}"
}
export -f one; export CHECKS BASE
printf "%s\n" $dirs | xargs -P ${JOBS:-4} -I{} bash -c 'one {}'
cd /; rm -rf $SNAP
