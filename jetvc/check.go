package main

import (
	"encoding/json"
	"flag"
	"fmt"
	"os"
	"os/exec"
	"path/filepath"
	"sort"
	"strconv"
	"strings"
	"time"
)

// Ledger: what discharges on the unchanged tree (committed under /verif/ledger).
type LedgerFunc struct {
	Obligations int      `json:"obligations"`
	Discharged  int      `json:"discharged"`
	Undecided   []string `json:"undecided,omitempty"`
	// obligations of the same unit that belong to other properties and did not discharge on the unchanged tree:
	// this property's obligations are checked under the assumption of every earlier obligation of the unit
	// (assert-then-assume), so a NEW failure among the others invalidates this property's claim for the unit
	ForeignUndecided []string `json:"foreign_undecided,omitempty"`
}

type Ledger struct {
	Property  string                 `json:"property"`
	Functions map[string]*LedgerFunc `json:"functions"`
	Total     int                    `json:"total"`
	Scans     map[string]int         `json:"scans,omitempty"`
}

type knownFinding struct {
	Property   string
	Obligation string
	Text       string
}

func loadKnownFindings(path string) []knownFinding {
	data, err := os.ReadFile(path)
	if err != nil {
		return nil
	}
	var out []knownFinding
	for _, line := range strings.Split(string(data), "\n") {
		line = strings.TrimSpace(line)
		if !strings.HasPrefix(line, "finding:") {
			continue
		}
		rest := strings.TrimSpace(strings.TrimPrefix(line, "finding:"))
		kf := knownFinding{}
		for {
			switch {
			case strings.HasPrefix(rest, "property="):
				f := strings.SplitN(rest, " ", 2)
				kf.Property = strings.TrimPrefix(f[0], "property=")
				rest = ""
				if len(f) > 1 {
					rest = strings.TrimSpace(f[1])
				}
				continue
			case strings.HasPrefix(rest, "obligation="):
				// obligation names may contain spaces inside {...}; they end at " :: "
				i := strings.Index(rest, " :: ")
				if i < 0 {
					kf.Obligation = strings.TrimPrefix(rest, "obligation=")
					rest = ""
				} else {
					kf.Obligation = strings.TrimPrefix(rest[:i], "obligation=")
					rest = strings.TrimSpace(rest[i+4:])
				}
				continue
			}
			break
		}
		kf.Text = rest
		out = append(out, kf)
	}
	return out
}

// demo corpus: concrete inputs tied to obligations (used to replay a failing obligation on the real code)
type demoEntry struct {
	Pattern string `json:"pattern"` // substring of the obligation name
	Test    string `json:"test"`    // file under /verif/findings/demos
	Sub     string `json:"sub,omitempty"`
}

func loadDemos(path string) map[string][]demoEntry {
	data, err := os.ReadFile(path)
	if err != nil {
		return nil
	}
	var m map[string][]demoEntry
	if json.Unmarshal(data, &m) != nil {
		return nil
	}
	return m
}

type sampleObl struct {
	Name    string  `json:"name"`
	Kind    string  `json:"kind"`
	Where   string  `json:"where"`
	Result  string  `json:"result"`
	Backend string  `json:"backend"`
	TimeS   float64 `json:"time_s"`
	Spec    string  `json:"spec,omitempty"`
}

func cmdCheck(args []string) {
	fs := flag.NewFlagSet("check", flag.ExitOnError)
	repo := fs.String("repo", "/repo", "repository")
	verif := fs.String("verif", "/verif", "verif dir")
	prop := fs.String("prop", "", "property id")
	tier := fs.String("tier", "quick", "quick|thorough")
	writeLedger := fs.Bool("write-ledger", false, "rewrite the ledger from this run (maintenance only)")
	keep := fs.Bool("keep", false, "keep smt files")
	evDir := fs.String("evidence-dir", "", "write evidence and replays below this directory instead of /verif (machinery QA runs)")
	fs.Parse(args)
	if *prop == "" {
		fmt.Fprintln(os.Stderr, "check: -prop required")
		os.Exit(2)
	}
	t0 := time.Now()
	seed := 0
	if s := os.Getenv("VERIF_SEED"); s != "" {
		seed, _ = strconv.Atoi(s)
	}
	timeout := 8000
	if *tier == "thorough" {
		timeout = 60000
	}
	e, err := loadEngine(*repo, *verif)
	if err != nil {
		fmt.Fprintln(os.Stderr, "check: cannot load "+*repo+":", err)
		os.Exit(2)
	}
	outDir, _ := os.MkdirTemp("", "jetvc-"+*prop+"-")
	if !*keep {
		defer os.RemoveAll(outDir)
	}
	keys := e.unitsFor(*prop, "")
	{
		var led Ledger
		if data, err := os.ReadFile(filepath.Join(*verif, "ledger", *prop+".json")); err == nil {
			json.Unmarshal(data, &led)
		}
		if *tier != "thorough" && !*writeLedger {
			for _, lf := range led.Functions {
				for _, n := range lf.Undecided {
					skipRace[n] = true
				}
			}
			for _, kf := range loadKnownFindings(filepath.Join(*verif, "known_findings.txt")) {
				skipRace[kf.Obligation] = true
			}
		}
	}
	units := e.runUnits(keys, outDir, timeout, *tier == "thorough")
	scans := e.runScans(*prop)

	ledgerPath := filepath.Join(*verif, "ledger", *prop+".json")
	var ledger Ledger
	if data, err := os.ReadFile(ledgerPath); err == nil {
		json.Unmarshal(data, &ledger)
	}
	known := loadKnownFindings(filepath.Join(*verif, "known_findings.txt"))
	demos := loadDemos(filepath.Join(*verif, "findings", "demos.json"))

	// collect
	type failure struct {
		o      *Obligation
		u      *Unit
		reason string
	}
	var failures []failure
	knownHits := []string{}
	undecided := []string{}
	nObl, nDis := 0, 0
	perBackend := map[string]int{}
	solverTime := 0.0
	var samples []sampleObl
	trusted := map[string]bool{}
	var fnList []string
	newLedger := Ledger{Property: *prop, Functions: map[string]*LedgerFunc{}, Scans: map[string]int{}}
	unsupportedNow := map[string]string{}
	for _, u := range units {
		fnList = append(fnList, u.Key)
		for _, a := range u.Assumptions {
			trusted[a] = true
		}
		if u.Unsupported != "" {
			unsupportedNow[u.Key] = u.Unsupported
			continue
		}
		lf := &LedgerFunc{}
		newLedger.Functions[u.Key] = lf
		tolerated := map[string]bool{}
		if old := ledger.Functions[u.Key]; old != nil {
			for _, n := range old.Undecided {
				tolerated[n] = true
			}
		}
		foreignTolerated := map[string]bool{}
		if old := ledger.Functions[u.Key]; old != nil {
			for _, n := range old.ForeignUndecided {
				foreignTolerated[n] = true
			}
		}
		earlierFailure := false
		for _, o := range u.Script.obls {
			if len(o.Props) > 0 && !hasProp(o.Props, *prop) {
				if !o.good() && !o.Cover {
					earlierFailure = true
					lf.ForeignUndecided = append(lf.ForeignUndecided, o.Name)
					if !foreignTolerated[o.Name] && !knownAnywhere(known, o.Name) {
						nObl++
						failures = append(failures, failure{o, u, "an obligation this property's proof of the unit relies on (assert-then-assume) does not discharge: " + o.Result})
					}
				}
				continue
			}
			if o.Cover && earlierFailure {
				continue // a failed (and then assumed) goal makes later covers meaningless
			}
			lf.Obligations++
			solverTime += o.TimeS
			if o.good() {
				lf.Discharged++
				nObl++
				nDis++
				perBackend[o.Backend]++
				if len(samples) < 12 || (o.Kind == "ensures" && len(samples) < 40) {
					samples = append(samples, sampleObl{o.Name, o.Kind, o.Where, o.Result, o.Backend, o.TimeS, o.Detail})
				}
				continue
			}
			earlierFailure = true
			lf.Undecided = append(lf.Undecided, o.Name)
			isKnown := false
			for _, kf := range known {
				if kf.Property == *prop && kf.Obligation == o.Name {
					knownHits = append(knownHits, fmt.Sprintf("KNOWN-FINDING: property=%s obligation=%s :: %s", *prop, o.Name, kf.Text))
					isKnown = true
				}
			}
			if isKnown {
				continue
			}
			if tolerated[o.Name] {
				undecided = append(undecided, o.Name+" ("+o.Result+")")
				continue
			}
			nObl++
			failures = append(failures, failure{o, u, "obligation does not discharge: " + o.Result})
		}
	}
	// functions that were verified in the ledger but are now outside the subset
	for k := range ledger.Functions {
		if msg, ok := unsupportedNow[k]; ok {
			failures = append(failures, failure{&Obligation{Name: k + "/supported-subset", Kind: "subset", Where: k, Detail: msg, Result: "unsupported"}, nil, "function left the supported subset: " + msg})
			nObl++
		}
	}
	// syntactic frame scans
	for _, s := range scans {
		newLedger.Scans[s.Name] = 1
		nObl++
		if s.OK {
			nDis++
			perBackend["ssa-scan"]++
			samples = append(samples, sampleObl{s.Name, "frame-scan", s.Where, "holds", "ssa-scan", 0, s.Detail})
		} else {
			isKnown := false
			for _, kf := range known {
				if kf.Property == *prop && kf.Obligation == s.Name {
					knownHits = append(knownHits, fmt.Sprintf("KNOWN-FINDING: property=%s obligation=%s :: %s", *prop, s.Name, kf.Text))
					isKnown = true
				}
			}
			if isKnown {
				nObl--
				continue
			}
			failures = append(failures, failure{&Obligation{Name: s.Name, Kind: "frame-scan", Where: s.Where, Detail: s.Detail, Result: "violated"}, nil, "frame scan failed: " + s.Detail})
		}
	}
	for _, lf := range newLedger.Functions {
		newLedger.Total += lf.Obligations
	}
	if *writeLedger {
		os.MkdirAll(filepath.Dir(ledgerPath), 0o755)
		data, _ := json.MarshalIndent(newLedger, "", " ")
		os.WriteFile(ledgerPath, append(data, '\n'), 0o644)
		fmt.Printf("ledger written: %s (%d obligations, %d not discharged)\n", ledgerPath, newLedger.Total, len(failures))
		for _, f := range failures {
			fmt.Printf("  not discharged: %s (%s)\n", f.o.Name, f.o.Result)
		}
	}
	// unsupported functions that never were in the ledger: reported, not a violation
	notAttempted := []string{}
	for k, msg := range unsupportedNow {
		if _, ok := ledger.Functions[k]; !ok {
			notAttempted = append(notAttempted, k+": "+msg)
		}
	}
	sort.Strings(notAttempted)

	// vacuity guard
	broken := ""
	if nObl == 0 {
		broken = "no obligations were generated for this property"
	}
	if ledger.Total > 0 && nObl*2 < ledger.Total {
		broken = fmt.Sprintf("only %d obligations generated, ledger expects about %d", nObl, ledger.Total)
	}

	// report violations
	exit := 0
	outBase := *verif
	if *evDir != "" {
		outBase = *evDir
	}
	replayDir := filepath.Join(outBase, "replays", *prop)
	var violationLines []string
	if !*writeLedger {
		for i, f := range failures {
			os.MkdirAll(replayDir, 0o755)
			path := filepath.Join(replayDir, fmt.Sprintf("%02d_%s.txt", i, mangle(f.o.Name)))
			if len(path) > 200 {
				path = path[:190] + ".txt"
			}
			var b strings.Builder
			fmt.Fprintf(&b, "property: %s\nfailed obligation: %s\nkind: %s\nwhere: %s\nreason: %s\nspec: %s\nsolver result: %s (%s)\n", *prop, f.o.Name, f.o.Kind, f.o.Where, f.reason, f.o.Detail, f.o.Result, f.o.Backend)
			replayed := false
			// concrete inputs attached to this obligation
			for _, d := range demos[*prop] {
				if strings.Contains(f.o.Name, d.Pattern) {
					sub := d.Sub
					if sub == "" {
						sub = "."
					}
					cmd := exec.Command(filepath.Join(*verif, "replay.sh"), *repo, filepath.Join(*verif, "findings", "demos", d.Test), sub)
					out, err := cmd.CombinedOutput()
					fmt.Fprintf(&b, "\nreplay of %s against the real code:\n%s\n", d.Test, tail(string(out), 3000))
					if err != nil {
						replayed = true
						fmt.Fprintf(&b, "=> the failing input reproduces on the real code\n")
						break
					}
					fmt.Fprintf(&b, "=> this input does not fail on the current tree\n")
				}
			}
			if f.o.Model != "" {
				fmt.Fprintf(&b, "\nsolver model (candidate counterexample, not concretised):\n%s\n", f.o.Model)
			}
			suffix := ""
			if !replayed {
				fmt.Fprintf(&b, "\nno-failing-input-found: the verifier gave no input that could be replayed; the obligation above discharged on the unchanged tree and does not discharge now.\n")
				suffix = " no-failing-input-found"
			}
			os.WriteFile(path, []byte(b.String()), 0o644)
			violationLines = append(violationLines, fmt.Sprintf("VIOLATION property=%s replay=%s obligation=%s%s", *prop, path, strings.ReplaceAll(f.o.Name, " ", "_"), suffix))
			exit = 1
		}
	}

	// evidence
	var tb []string
	for a := range trusted {
		tb = append(tb, a)
	}
	sort.Strings(tb)
	tb = append(tb, "the VC generator /verif/jetvc itself (translation of go/ssa to SMT-LIB; see DESIGN.md 1.2 for the modelled subset)", "machine integers treated as mathematical integers", "z3 4.8.12 / z3 5.1.0 / cvc5 1.0 soundness")
	sort.Strings(fnList)
	ev := map[string]interface{}{
		"property_id": *prop,
		"tier":        *tier,
		"seed":        seed,
		"level":       "proof",
		"coverage": map[string]interface{}{
			"obligations":              nObl,
			"discharged":               nDis,
			"checker_cmd":              fmt.Sprintf("/verif/bin/jetvc check -prop %s -tier %s   (weakest-precondition generation over go/ssa of %s, obligations discharged by z3-new 5.1.0 incremental, then raced on z3 4.8.12 / z3-new / cvc5 1.0)", *prop, *tier, *repo),
			"trusted_base":             tb,
			"functions_under_contract": fnList,
			"per_backend":              perBackend,
			"solver_time_s":            solverTime,
			"undecided":                undecided,
			"not_attempted":            notAttempted,
			"known_findings":           knownHits,
			"samples":                  samples,
			"explanation":              "obligations = contract clauses, loop invariants (entry/preserved), callee preconditions, crash-freedom of every instruction that can panic at run time, frame conditions and vacuity covers, generated from the current working tree of /repo; 'undecided' lists obligations that never discharged on the unchanged tree and are not claimed",
		},
		"assumptions": tb,
		"wall_s":      time.Since(t0).Seconds(),
		"violations":  len(violationLines),
	}
	if broken != "" {
		ev["coverage"].(map[string]interface{})["broken"] = broken
	}
	os.MkdirAll(filepath.Join(outBase, "evidence"), 0o755)
	data, _ := json.MarshalIndent(ev, "", " ")
	os.WriteFile(filepath.Join(outBase, "evidence", *prop+".json"), append(data, '\n'), 0o644)

	for _, l := range knownHits {
		fmt.Println(l)
	}
	for _, l := range violationLines {
		fmt.Println(l)
	}
	fmt.Printf("property %s tier %s: functions=%d obligations=%d discharged=%d undecided(not claimed)=%d known-findings=%d violations=%d wall=%.1fs\n", *prop, *tier, len(fnList), nObl, nDis, len(undecided), len(knownHits), len(violationLines), time.Since(t0).Seconds())
	if !*keep {
		os.RemoveAll(outDir) // (os.Exit below skips the deferred removal)
	}
	if broken != "" && !*writeLedger {
		fmt.Fprintln(os.Stderr, "BROKEN:", broken)
		if len(violationLines) > 0 {
			// the collapse has a reported cause (units that left the supported subset, e.g. a contract naming a
			// symbol the code no longer has): that is a violation, reported above with its VIOLATION lines
			os.Exit(1)
		}
		os.Exit(2)
	}
	os.Exit(exit)
}

func tail(s string, n int) string {
	if len(s) > n {
		return "..." + s[len(s)-n:]
	}
	return s
}

// knownAnywhere: the obligation is a recorded known finding of some property.
func knownAnywhere(known []knownFinding, name string) bool {
	for _, kf := range known {
		if kf.Obligation == name {
			return true
		}
	}
	return false
}
