#!/usr/bin/env python3
# debugging aid: find the first assertion after which the script becomes unsat
import sys, subprocess, re
lines = open(sys.argv[1]).read().split('\n')
# keep only up to first push (incremental script) or whole standalone
out=[]; asserts=[]
for l in lines:
    if l.startswith('(push'): break
    if l.startswith('(check-sat') or l.startswith('(get-model') or l.startswith('(echo'): continue
    out.append(l)
    if l.startswith('(assert'): asserts.append(len(out)-1)
upto = int(sys.argv[2]) if len(sys.argv)>2 else None
def sat(n):
    s='\n'.join(out[:n+1])+'\n(check-sat)\n'
    open('/tmp/bis.smt2','w').write(s)
    r=subprocess.run(['z3-new','-smt2','smt.mbqi=false','-T:10','/tmp/bis.smt2'],capture_output=True,text=True).stdout.strip().split('\n')[0]
    return r
lo,hi=0,len(asserts)-1
if sat(asserts[hi])!='unsat':
    print('whole prefix is', sat(asserts[hi])); sys.exit()
while lo<hi:
    mid=(lo+hi)//2
    if sat(asserts[mid])=='unsat': hi=mid
    else: lo=mid+1
print('first unsat after assertion line', asserts[lo]); print(out[asserts[lo]][:1500])
