package main

import (
	"fmt"
	"go/constant"
	"go/token"
	"go/types"
	"strings"

	"golang.org/x/tools/go/ssa"
)

// ---------------------------------------------------------------------------
// CFG preparation

func (f *fx) findLoops() {
	f.loops = map[*ssa.BasicBlock]*loopInfo{}
	for _, b := range f.fn.Blocks {
		for _, s := range b.Succs {
			if s.Dominates(b) {
				li := f.loops[s]
				if li == nil {
					li = &loopInfo{head: s, body: map[*ssa.BasicBlock]bool{s: true}}
					f.loops[s] = li
				}
				// natural loop of back edge b->s
				stack := []*ssa.BasicBlock{b}
				for len(stack) > 0 {
					n := stack[len(stack)-1]
					stack = stack[:len(stack)-1]
					if li.body[n] {
						continue
					}
					li.body[n] = true
					stack = append(stack, n.Preds...)
				}
			}
		}
	}
	// ordinals by block index
	ord := 0
	for _, b := range f.fn.Blocks {
		if li, ok := f.loops[b]; ok {
			li.ord = ord
			ord++
		}
	}
}

func isBackEdge(from, to *ssa.BasicBlock) bool { return to.Dominates(from) }

// topo order ignoring back edges (reverse postorder)
func (f *fx) topo() []*ssa.BasicBlock {
	seen := map[*ssa.BasicBlock]bool{}
	var post []*ssa.BasicBlock
	var dfs func(b *ssa.BasicBlock)
	dfs = func(b *ssa.BasicBlock) {
		seen[b] = true
		for _, s := range b.Succs {
			if isBackEdge(b, s) || seen[s] {
				continue
			}
			dfs(s)
		}
		post = append(post, b)
	}
	if len(f.fn.Blocks) > 0 {
		dfs(f.fn.Blocks[0])
	}
	for i, j := 0, len(post)-1; i < j; i, j = i+1, j-1 {
		post[i], post[j] = post[j], post[i]
	}
	return post
}

// ---------------------------------------------------------------------------
// values

func (f *fx) val(v ssa.Value) Val {
	switch c := v.(type) {
	case *ssa.Const:
		return f.constVal(c)
	case *ssa.Function:
		return Val{Kind: vFn, Fn: &FnVal{Fn: c, ID: f.e.fnID(c)}}
	case *ssa.Global:
		key := "G:" + mangle(c.Pkg.Pkg.Name()+"."+c.Name())
		elem := derefType(c.Type())
		f.regKey(key, f.e.sorts.sortOf(elem))
		return locVal(&Loc{Root: rootGlobal, Key: key, Typ: elem, PTyp: elem})
	case *ssa.Builtin:
		unsupp("builtin %s used as a value", c.Name())
	}
	if x, ok := f.vals[v]; ok {
		return x
	}
	if fv, ok := v.(*ssa.FreeVar); ok {
		for i, w := range f.fn.FreeVars {
			if w == fv && i < len(f.freeVars) {
				return f.freeVars[i]
			}
		}
	}
	unsupp("value %s (%T) used before definition in %s", v.Name(), v, f.fn.Name())
	return Val{}
}

func (f *fx) term(v ssa.Value) Term { return f.reify(f.val(v)) }

func (f *fx) strLit(s string) Term {
	if s == "" {
		return Term{"str_empty", "Str"}
	}
	name := litName(s)
	if !f.sc.names[name] {
		f.sc.names[name] = true
		f.sc.lines = append(f.sc.lines, fmt.Sprintf("(declare-const %s Str)", name))
		f.sc.lines = append(f.sc.lines, fmt.Sprintf("(assert (= (slen %s) %d))", name, len(s)))
		for i := 0; i < len(s) && i < 64; i++ {
			f.sc.lines = append(f.sc.lines, fmt.Sprintf("(assert (= (sat %s %d) %d))", name, i, s[i]))
		}
		f.top.litStrs[name] = s
	}
	return Term{name, "Str"}
}

// litName is an injective encoding of a string literal as an SMT symbol.
func litName(s string) string {
	var b strings.Builder
	b.WriteString("lit_")
	plain := true
	for i := 0; i < len(s); i++ {
		c := s[i]
		if !((c >= 'a' && c <= 'z') || (c >= 'A' && c <= 'Z') || (c >= '0' && c <= '9')) {
			plain = false
		}
	}
	if plain && len(s) <= 40 {
		b.WriteString(s)
		return b.String()
	}
	b.WriteString("x")
	for i := 0; i < len(s); i++ {
		fmt.Fprintf(&b, "%02x", s[i])
	}
	n := b.String()
	if len(n) > 90 {
		// long literals: prefix plus a hash of the whole string
		h := uint64(14695981039346656037)
		for i := 0; i < len(s); i++ {
			h ^= uint64(s[i])
			h *= 1099511628211
		}
		n = fmt.Sprintf("%s_%d_%x", n[:60], len(s), h)
	}
	return n
}

func (f *fx) constVal(c *ssa.Const) Val {
	t := c.Type()
	srt := f.e.sorts.sortOf(t)
	if c.Value == nil {
		return termVal(f.e.sorts.zero(srt))
	}
	switch c.Value.Kind() {
	case constant.Bool:
		if constant.BoolVal(c.Value) {
			return termVal(tTrue)
		}
		return termVal(tFalse)
	case constant.String:
		return termVal(f.strLit(constant.StringVal(c.Value)))
	case constant.Int:
		if srt == "Float" {
			return termVal(f.floatLit(c.Value.ExactString()))
		}
		if i, ok := constant.Int64Val(c.Value); ok {
			return termVal(intLit(i))
		}
		if u, ok := constant.Uint64Val(c.Value); ok {
			return termVal(Term{fmt.Sprintf("%d", u), "Int"})
		}
	case constant.Float:
		return termVal(f.floatLit(c.Value.ExactString()))
	}
	unsupp("constant %s", c)
	return Val{}
}

func (f *fx) floatLit(s string) Term {
	name := "flit_" + mangle(s)
	f.sc.declareOnce(name, fmt.Sprintf("(declare-const %s Float)", name))
	return Term{name, "Float"}
}

// ---------------------------------------------------------------------------
// running a body

// run executes the function body from the given state; returns are collected in
// f.returns, panics leaving the function in f.panicsOut.
func (f *fx) run(st *State, reach Term) {
	if len(f.fn.Blocks) == 0 {
		unsupp("function %s has no body", f.fn.Name())
	}
	f.findLoops()
	f.in = map[*ssa.BasicBlock][]*edge{}
	for _, b := range f.fn.Blocks {
		f.in[b] = make([]*edge, len(b.Preds))
	}
	order := f.topo()
	// defers are collected statically (in topological order of their blocks): a return block may be
	// processed before the loop body that contains the defer statement
	f.defers = nil
	for _, b := range order {
		for _, in := range b.Instrs {
			if d, ok := in.(*ssa.Defer); ok {
				f.defers = append(f.defers, &deferRec{instr: d, key: f.deferKey(d), ord: len(f.defers)})
			}
		}
	}
	entryEdge := &edge{cond: reach, state: st}
	for _, b := range order {
		if b == f.fn.Recover {
			continue
		}
		var edges []*edge
		if b == f.fn.Blocks[0] {
			edges = []*edge{entryEdge}
		} else {
			edges = f.in[b]
		}
		f.execBlock(b, edges)
	}
	f.finishPanics()
}

func (f *fx) execBlock(b *ssa.BasicBlock, edges []*edge) {
	f.curBlock = b
	f.curIdx = -1
	li := f.loops[b]
	if li != nil {
		f.enterLoop(li, edges)
	} else {
		f.cur, f.curReach = f.mergeStates(edges)
	}
	for i, in := range b.Instrs {
		f.curIdx = i
		if li != nil {
			if _, ok := in.(*ssa.Phi); ok {
				continue // handled by enterLoop
			}
		}
		f.exec(in, edges)
	}
}

func (f *fx) addEdge(from, to *ssa.BasicBlock, cond Term) {
	// find the predecessor index (a block may appear twice)
	for i, p := range to.Preds {
		if p == from && f.in[to][i] == nil {
			if isBackEdge(from, to) {
				f.closeLoop(f.loops[to], i, cond)
				f.in[to][i] = &edge{cond: tFalse, state: f.cur}
				return
			}
			f.in[to][i] = &edge{cond: cond, state: f.cloneState(f.cur)}
			return
		}
	}
	panic("edge not found")
}

// ---------------------------------------------------------------------------
// loops

func (f *fx) loopSpec(li *loopInfo) *LoopSpec {
	c := f.e.specs.Contracts[fnKey(f.fn)]
	if c == nil {
		return nil
	}
	return c.Loops[li.ord]
}

// modified state keys and phis of a loop
func (f *fx) loopModKeys(li *loopInfo) (keys map[string]bool, all bool) {
	keys = map[string]bool{}
	for b := range li.body {
		for _, in := range b.Instrs {
			switch x := in.(type) {
			case *ssa.Store:
				for _, k := range f.staticStoreKeys(x.Addr) {
					keys[k] = true
				}
			case *ssa.MapUpdate:
				if m, ok := x.Map.Type().Underlying().(*types.Map); ok {
					vk, dk := f.mapKeys(m)
					keys[vk], keys[dk] = true, true
				}
			case *ssa.Alloc:
				if !x.Heap {
					keys[f.localKey(x)] = true
				} else {
					keys["E:alloc"] = true
					for _, k := range f.allocKeys(x.Type()) {
						keys[k] = true
					}
				}
			case *ssa.Send:
				keys[f.sentKey(x.Chan.Type().Underlying().(*types.Chan).Elem())] = true
			case *ssa.MakeMap, *ssa.MakeSlice, *ssa.MakeClosure, *ssa.MakeChan:
				keys["E:alloc"] = true
			case *ssa.Defer:
				keys[f.deferKey(x)] = true
			case ssa.CallInstruction:
				if k := f.ncallsKey(x); k != "" {
					keys[k] = true
					// lastret("callee", i) of a callee called in the loop is arbitrary at the loop head
					callee := strings.TrimPrefix(k, "E:ncalls:")
					for i := 0; i < 4; i++ {
						rk := fmt.Sprintf("E:ret:%s:%d", callee, i)
						if _, ok := f.e.keySorts[rk]; ok {
							keys[rk] = true
						}
						if n := f.siteOrdinal(callee, x.Pos()); n >= 0 {
							sk := fmt.Sprintf("E:sret:%s#%d:%d", callee, n, i)
							if _, ok := f.e.keySorts[sk]; ok {
								keys[sk] = true
							}
						}
					}
				}
				if k := f.visitsKey(x.Common(), x.Pos()); k != "" {
					keys[k] = true
				}
				ks, a := f.callModKeys(x)
				if a {
					all = true
				}
				direct := strings.HasPrefix(calleeKeyOf(x.Common()), "(*sync.RWMutex).")
				for _, k := range ks {
					if k == "X:Held" && !direct {
						continue // lock users restore the lock state (proved: ensures Held == old(Held))
					}
					keys[k] = true
				}
			}
		}
	}
	return
}

func (f *fx) ncallsKey(ci ssa.CallInstruction) string {
	c := ci.Common()
	if _, ok := c.Value.(*ssa.Builtin); ok {
		return ""
	}
	var key string
	if c.IsInvoke() {
		key = "(" + typeKeyString(c.Value.Type()) + ")." + c.Method.Name()
	} else if sf := c.StaticCallee(); sf != nil {
		key = fnKey(sf)
	} else {
		return ""
	}
	k := "E:ncalls:" + key
	f.regKey(k, "Int")
	return k
}

func (f *fx) enterLoop(li *loopInfo, edges []*edge) {
	spec := f.loopSpec(li)
	if spec == nil {
		if c := f.e.specs.Contracts[fnKey(f.top.fn)]; c != nil && c.Implicit {
			spec = &LoopSpec{}
		} else {
			unsupp("loop %d of %s has no invariant", li.ord, fnKey(f.fn))
		}
	}
	li.spec = spec
	// entry edges = non-back edges
	var fwd []*edge
	var fwdIdx []int
	for i, p := range li.head.Preds {
		if isBackEdge(p, li.head) {
			continue
		}
		fwd = append(fwd, edges[i])
		fwdIdx = append(fwdIdx, i)
	}
	f.cur, f.curReach = f.mergeStates(fwd)
	// phi values on entry
	for _, in := range li.head.Instrs {
		phi, ok := in.(*ssa.Phi)
		if !ok {
			break
		}
		var v Term
		first := true
		for k := len(fwdIdx) - 1; k >= 0; k-- {
			e := edges[fwdIdx[k]]
			if e == nil {
				continue
			}
			ev := f.term(phi.Edges[fwdIdx[k]])
			if first {
				v, first = ev, false
			} else {
				v = ite(e.cond, ev, v)
			}
		}
		if first {
			v = f.e.sorts.zero(f.e.sorts.sortOf(phi.Type()))
		}
		f.vals[phi] = termVal(v)
	}
	// invariant on entry
	for i, inv := range spec.Invariants {
		env := f.envAt(f.cur)
		g := f.specBool(inv, env)
		f.oblige("invariant-entry", fmt.Sprintf("loop%d/inv%s/entry", li.ord, clauseName(inv, i)), g, inv.Props, inv.Where, inv.Src)
	}
	for i, en := range spec.Entry {
		env := f.envAt(f.cur)
		g := f.specBool(en, env)
		f.oblige("invariant-entry", fmt.Sprintf("loop%d/entry%s", li.ord, clauseName(en, i)), g, en.Props, en.Where, en.Src)
	}
	// havoc
	keys, all := f.loopModKeys(li)
	if all {
		f.cur = f.havocAll(f.cur)
	}
	var loopKeys []string
	for k := range keys {
		if _, ok := f.e.keySorts[k]; !ok {
			continue
		}
		if k == "E:alloc" {
			old := f.get(f.cur, k)
			n := f.sc.fresh("alloc@loop", "Int")
			f.sc.assert(T("Bool", "(>= %s %s)", n.S, old.S))
			f.set(f.cur, k, n)
			continue
		}
		loopKeys = append(loopKeys, k)
	}
	for _, k := range loopKeys {
		f.set(f.cur, k, f.freshHeap(k, "@loop", f.get(f.cur, "E:alloc")))
	}
	entryReach := f.curReach
	f.curReach = f.sc.fresh(fmt.Sprintf("reach_loop%d", li.ord), "Bool")
	// an arbitrary iteration is only reached through the loop entry: path facts about values
	// defined before the loop stay valid
	f.sc.assert(implies(f.curReach, entryReach))
	for _, in := range li.head.Instrs {
		phi, ok := in.(*ssa.Phi)
		if !ok {
			break
		}
		n := f.sc.fresh("phi_"+phi.Comment, f.e.sorts.sortOf(phi.Type()))
		f.vals[phi] = termVal(n)
		f.assumeTyped(f.cur, n, phi.Type())
		if isRangeIndexPhi(phi) {
			// hidden index of "for range" over a slice, array or string: starts at -1 and is only ever
			// incremented (checked on the shape of the phi), so it is never below -1
			f.sc.assert(T("Bool", "(>= %s (- 1))", n.S))
		}
	}
	for _, inv := range spec.Invariants {
		env := f.envAt(f.cur)
		f.sc.assert(implies(f.curReach, f.specBool(inv, env)))
	}
	if spec.Decreases != nil {
		env := f.envAt(f.cur)
		li.decr0 = f.sc.define("decr0", f.specTerm(spec.Decreases, env))
		li.hasDec = true
	}
	li.headState = f.cloneState(f.cur)
	li.headPhis = map[*ssa.Phi]Val{}
	for _, in := range li.head.Instrs {
		if phi, ok := in.(*ssa.Phi); ok {
			li.headPhis[phi] = f.vals[phi]
		}
	}
	li.mono0 = nil
	for _, m := range spec.Monotone {
		env := f.envAt(f.cur)
		li.mono0 = append(li.mono0, f.sc.define("mono0", f.specBool(m, env)))
	}
	// cover: the loop head must be reachable under the invariant
	f.cover(fmt.Sprintf("loop%d/cover", li.ord))
}

func (f *fx) closeLoop(li *loopInfo, predIdx int, cond Term) {
	save := f.curReach
	f.curReach = cond
	// evaluate invariants with phis bound to the incoming values of this edge
	saved := map[*ssa.Phi]Val{}
	for _, in := range li.head.Instrs {
		phi, ok := in.(*ssa.Phi)
		if !ok {
			break
		}
		saved[phi] = f.vals[phi]
		f.vals[phi] = termVal(f.term(phi.Edges[predIdx]))
	}
	for i, inv := range li.spec.Invariants {
		env := f.envAt(f.cur)
		g := f.specBool(inv, env)
		f.oblige("invariant-preserved", fmt.Sprintf("loop%d/inv%s/preserved#%d", li.ord, clauseName(inv, i), predIdx), g, inv.Props, inv.Where, inv.Src)
	}
	if li.hasDec {
		env := f.envAt(f.cur)
		d := f.specTerm(li.spec.Decreases, env)
		g := T("Bool", "(and (<= 0 %s) (< %s %s))", li.decr0.S, d.S, li.decr0.S)
		f.oblige("decreases", fmt.Sprintf("loop%d/decreases#%d", li.ord, predIdx), g, li.spec.Decreases.Props, li.spec.Decreases.Where, li.spec.Decreases.Src)
	}
	for i, m := range li.spec.Monotone {
		env := f.envAt(f.cur)
		g := implies(li.mono0[i], f.specBool(m, env))
		f.oblige("monotone", fmt.Sprintf("loop%d/monotone%s/preserved#%d", li.ord, clauseName(m, i), predIdx), g, m.Props, m.Where, "once true it stays true: "+m.Src)
	}
	for i, st := range li.spec.Steps {
		env := f.envAt(f.cur)
		env.prevLoop = li
		g := f.specBool(st, env)
		f.oblige("step", fmt.Sprintf("loop%d/step%s/preserved#%d", li.ord, clauseName(st, i), predIdx), g, st.Props, st.Where, "one iteration: "+st.Src)
	}
	for phi, v := range saved {
		f.vals[phi] = v
	}
	f.curReach = save
}

func clauseName(c *Clause, i int) string {
	if c.Label != "" {
		return ":" + c.Label
	}
	return fmt.Sprintf("#%d", i)
}

func (f *fx) cover(name string) {
	o := &Obligation{Name: fnKey(f.top.fn) + "/" + name, Kind: "cover", Func: fnKey(f.top.fn), Goal: tFalse, Reach: f.curReach, Index: len(f.sc.lines), Cover: true}
	if f.top.contract != nil {
		o.Props = f.top.contract.Props
	}
	f.sc.obls = append(f.sc.obls, o)
}

// ---------------------------------------------------------------------------
// instructions

func (f *fx) localKey(a *ssa.Alloc) string {
	key := fmt.Sprintf("L:%s.%s.%s", mangle(fnKey(f.fn)), mangle(a.Comment), a.Name())
	if f.depth > 0 {
		key += fmt.Sprintf("@%p", f)
	}
	f.regKey(key, f.e.sorts.sortOf(derefType(a.Type())))
	return key
}

func (f *fx) deferKey(d *ssa.Defer) string {
	for i, in := range d.Block().Instrs {
		if in == ssa.Instruction(d) {
			key := fmt.Sprintf("E:defer:%s.b%d.%d", mangle(fnKey(f.fn)), d.Block().Index, i)
			if f.depth > 0 {
				key += fmt.Sprintf("@%p", f)
			}
			f.regKey(key, "Bool")
			return key
		}
	}
	panic("defer not found")
}

// allocKeys lists the heap keys initialised by allocating a *T.
func (f *fx) allocKeys(ptr types.Type) []string {
	elem := derefType(ptr)
	if elem == nil {
		return nil
	}
	srt := f.e.sorts.sortOf(elem)
	if st, ok := elem.Underlying().(*types.Struct); ok && f.e.sorts.structInfo[srt] != nil {
		var ks []string
		for i := 0; i < st.NumFields(); i++ {
			ks = append(ks, f.fieldKey(elem, i))
		}
		return ks
	}
	return []string{f.cellKey(elem)}
}

// staticStoreKeys approximates the state keys a store through addr may change.
func (f *fx) staticStoreKeys(addr ssa.Value) []string {
	switch a := addr.(type) {
	case *ssa.Alloc:
		if !a.Heap {
			return []string{f.localKey(a)}
		}
		return f.allocKeys(a.Type())
	case *ssa.FieldAddr:
		// walk to the root
		root := a.X
		path := []int{a.Field}
		for {
			if fa, ok := root.(*ssa.FieldAddr); ok {
				path = append([]int{fa.Field}, path...)
				root = fa.X
				continue
			}
			break
		}
		if al, ok := root.(*ssa.Alloc); ok && !al.Heap {
			return []string{f.localKey(al)}
		}
		if ia, ok := root.(*ssa.IndexAddr); ok {
			return f.staticStoreKeys(ia)
		}
		if g, ok := root.(*ssa.Global); ok {
			return []string{f.val(g).Loc.Key}
		}
		elem := derefType(root.Type())
		if elem != nil {
			if _, ok := elem.Underlying().(*types.Struct); ok && f.e.sorts.structInfo[f.e.sorts.sortOf(elem)] != nil {
				return []string{f.fieldKey(elem, path[0])}
			}
			return []string{f.cellKey(elem)}
		}
	case *ssa.IndexAddr:
		switch t := a.X.Type().Underlying().(type) {
		case *types.Slice:
			return []string{f.backingKey(t.Elem())}
		case *types.Pointer:
			return f.staticStoreKeys(a.X)
		}
	case *ssa.Global:
		return []string{f.val(a).Loc.Key}
	case *ssa.FreeVar, *ssa.Parameter, *ssa.UnOp, *ssa.Phi, *ssa.Call, *ssa.Extract:
		elem := derefType(addr.Type())
		if elem != nil {
			if st, ok := elem.Underlying().(*types.Struct); ok && f.e.sorts.structInfo[f.e.sorts.sortOf(elem)] != nil {
				var ks []string
				for i := 0; i < st.NumFields(); i++ {
					ks = append(ks, f.fieldKey(elem, i))
				}
				return ks
			}
			return []string{f.cellKey(elem)}
		}
	}
	unsupp("cannot determine the keys modified by a store through %s (%T)", addr.Name(), addr)
	return nil
}

// initFresh initialises a field of a freshly allocated object. The new array gets a name and an
// explicit frame lemma, so that quantified facts about older objects keep matching.
func (f *fx) initFresh(key string, ref, val Term) {
	old := f.get(f.cur, key)
	if strings.HasPrefix(key, "B:") {
		n := f.sc.fresh(key+"@a", old.Sort)
		f.sc.assert(eq(n, sto(old, ref, val)))
		f.sc.assert(T("Bool", "(forall ((x Int)) (! (=> (not (= x %s)) (= (select %s x) (select %s x))) :pattern ((select %s x))))", ref.S, n.S, old.S, n.S))
		f.set(f.cur, key, n)
		return
	}
	f.set(f.cur, key, sto(old, ref, val))
}

func (f *fx) newRef(what string) Term {
	old := f.allocNow(f.cur)
	r := f.sc.define("ref_"+what, T("Int", "(+ %s 1)", old.S))
	f.set(f.cur, "E:alloc", r)
	return r
}

func (f *fx) exec(in ssa.Instruction, edges []*edge) {
	switch x := in.(type) {
	case *ssa.DebugRef:
		return
	case *ssa.Phi:
		var v Term
		first := true
		for i := len(x.Edges) - 1; i >= 0; i-- {
			e := edges[i]
			if e == nil || e.cond.S == "false" {
				continue
			}
			ev := f.term(x.Edges[i])
			if first {
				v, first = ev, false
			} else {
				v = ite(e.cond, ev, v)
			}
		}
		if first {
			v = f.e.sorts.zero(f.e.sorts.sortOf(x.Type()))
		}
		f.vals[x] = termVal(f.sc.define("phi_"+x.Comment, v))
	case *ssa.Alloc:
		elem := derefType(x.Type())
		srt := f.e.sorts.sortOf(elem)
		if !x.Heap {
			key := f.localKey(x)
			f.set(f.cur, key, f.e.sorts.zero(srt))
			f.vals[x] = locVal(&Loc{Root: rootLocal, Key: key, Typ: elem, PTyp: elem})
			return
		}
		ref := f.newRef(x.Comment)
		var l *Loc
		if at, ok := elem.Underlying().(*types.Array); ok {
			// a heap array is laid out like a slice backing store, so that slicing it shares the elements
			k := f.backingKey(at.Elem())
			zarr := f.e.sorts.zero(arraySort("Int", f.e.sorts.sortOf(at.Elem())))
			f.initFresh(k, ref, zarr)
			f.vals[x] = locVal(&Loc{Root: rootBacking, Ref: ref, Typ: at.Elem(), PTyp: elem})
			return
		}
		if st, ok := elem.Underlying().(*types.Struct); ok && f.e.sorts.structInfo[srt] != nil {
			l = &Loc{Root: rootHeap, Ref: ref, Typ: elem, PTyp: elem}
			for i := 0; i < st.NumFields(); i++ {
				k := f.fieldKey(elem, i)
				f.initFresh(k, ref, f.e.sorts.zero(f.e.sorts.sortOf(st.Field(i).Type())))
			}
		} else {
			l = &Loc{Root: rootCell, Ref: ref, Typ: elem, PTyp: elem}
			k := f.cellKey(elem)
			f.initFresh(k, ref, f.e.sorts.zero(srt))
		}
		f.vals[x] = locVal(l)
	case *ssa.FieldAddr:
		base := f.val(x.X)
		if base.Kind == vTerm {
			f.crash("nil-deref", T("Bool", "(not (= %s 0))", base.T.S), x.Pos())
		}
		l := f.ptrLoc(base, x.X.Type())
		ft := l.PTyp.Underlying().(*types.Struct).Field(x.Field).Type()
		f.vals[x] = locVal(l.extend(PathStep{Field: x.Field}, ft))
		f.guardAccess(fieldOf(x), false, base, x.X.Type(), x, x.Pos())
	case *ssa.Field:
		v := f.term(x.X)
		st := x.X.Type().Underlying().(*types.Struct)
		info := f.e.sorts.structInfo[f.e.sorts.sortOf(x.X.Type())]
		_ = st
		if info == nil {
			f.vals[x] = termVal(f.opaqueField(v, x.X.Type(), x.Field))
			return
		}
		f.vals[x] = termVal(app(info.FSorts[x.Field], info.Fields[x.Field], v))
	case *ssa.IndexAddr:
		idx := f.term(x.Index)
		switch t := x.X.Type().Underlying().(type) {
		case *types.Slice:
			s := f.term(x.X)
			f.crash("index", T("Bool", "(and (<= 0 %s) (< %s (sl_len %s)))", idx.S, idx.S, s.S), x.Pos())
			off := T("Int", "(idx_add (sl_off %s) %s)", s.S, idx.S)
			f.vals[x] = locVal(&Loc{Root: rootBacking, Ref: T("Int", "(sl_ref %s)", s.S), Typ: t.Elem(), Path: []PathStep{{Field: -1, Idx: &off}}, PTyp: t.Elem()})
		case *types.Pointer:
			arr := t.Elem().Underlying().(*types.Array)
			base := f.val(x.X)
			if base.Kind == vTerm {
				f.crash("nil-deref", T("Bool", "(not (= %s 0))", base.T.S), x.Pos())
			}
			f.crash("index", T("Bool", "(and (<= 0 %s) (< %s %d))", idx.S, idx.S, arr.Len()), x.Pos())
			l := f.ptrLoc(base, x.X.Type())
			f.vals[x] = locVal(l.extend(PathStep{Field: -1, Idx: &idx}, arr.Elem()))
			if l.Root == rootBacking && len(l.Path) == 0 {
				f.vals[x].Loc.Typ = arr.Elem()
			}
		default:
			unsupp("IndexAddr on %s", x.X.Type())
		}
	case *ssa.Index:
		idx := f.term(x.Index)
		v := f.term(x.X)
		switch t := x.X.Type().Underlying().(type) {
		case *types.Basic: // string
			f.crash("index", T("Bool", "(and (<= 0 %s) (< %s (slen %s)))", idx.S, idx.S, v.S), x.Pos())
			f.vals[x] = termVal(T("Int", "(sat %s %s)", v.S, idx.S))
		case *types.Array:
			f.crash("index", T("Bool", "(and (<= 0 %s) (< %s %d))", idx.S, idx.S, t.Len()), x.Pos())
			f.vals[x] = termVal(sel(v, idx))
		default:
			unsupp("Index on %s", x.X.Type())
		}
	case *ssa.UnOp:
		f.unop(x)
	case *ssa.BinOp:
		f.vals[x] = termVal(f.binop(x.Op, f.val(x.X), f.val(x.Y), x.X.Type(), x.Pos(), x.X, x.Y))
	case *ssa.Store:
		addr := f.val(x.Addr)
		if addr.Kind == vTerm {
			f.crash("nil-deref", T("Bool", "(not (= %s 0))", addr.T.S), x.Pos())
		}
		l := f.ptrLoc(addr, x.Addr.Type())
		v := f.term(x.Val)
		f.checkFrameStore(l, x.Pos())
		f.store(f.cur, l, v)
	case *ssa.Convert:
		f.vals[x] = termVal(f.convert(f.term(x.X), x.X.Type(), x.Type()))
	case *ssa.ChangeType:
		f.vals[x] = f.val(x.X)
	case *ssa.ChangeInterface:
		f.vals[x] = f.val(x.X)
	case *ssa.MakeInterface:
		f.vals[x] = termVal(f.makeIface(f.val(x.X), x.X.Type()))
	case *ssa.TypeAssert:
		f.typeAssert(x)
	case *ssa.Extract:
		t := f.val(x.Tuple)
		if t.Kind != vTuple {
			unsupp("extract from non-tuple")
		}
		f.vals[x] = t.Tup[x.Index]
	case *ssa.Slice:
		f.sliceOp(x)
	case *ssa.MakeSlice:
		ln := f.term(x.Len)
		cp := f.term(x.Cap)
		f.crash("makeslice", T("Bool", "(and (<= 0 %s) (<= %s %s))", ln.S, ln.S, cp.S), x.Pos())
		ref := f.newRef("slice")
		elem := x.Type().Underlying().(*types.Slice).Elem()
		k := f.backingKey(elem)
		zarr := f.e.sorts.zero(arraySort("Int", f.e.sorts.sortOf(elem)))
		f.initFresh(k, ref, zarr)
		f.vals[x] = termVal(T("Slice", "(mk_slice %s 0 %s %s)", ref.S, ln.S, cp.S))
	case *ssa.MakeMap:
		ref := f.newRef("map")
		m := x.Type().Underlying().(*types.Map)
		_, dk := f.mapKeys(m)
		ks := f.e.sorts.sortOf(m.Key())
		f.set(f.cur, dk, sto(f.get(f.cur, dk), ref, T(arraySort(ks, "Bool"), "((as const %s) false)", arraySort(ks, "Bool"))))
		f.vals[x] = termVal(ref)
	case *ssa.MakeChan:
		f.vals[x] = termVal(f.newRef("chan"))
	case *ssa.MakeClosure:
		fn := x.Fn.(*ssa.Function)
		var bs []Val
		for _, b := range x.Bindings {
			bs = append(bs, f.val(b))
		}
		id := f.newRef("closure")
		f.sc.assert(eq(app("Int", "closure_fn", id), f.e.fnID(fn)))
		f.vals[x] = Val{Kind: vFn, Fn: &FnVal{Fn: fn, Bindings: bs, ID: id}}
	case *ssa.Lookup:
		f.lookup(x)
	case *ssa.MapUpdate:
		m := f.term(x.Map)
		mt := x.Map.Type().Underlying().(*types.Map)
		f.crash("nil-map-write", T("Bool", "(not (= %s 0))", m.S), x.Pos())
		vk, dk := f.mapKeys(mt)
		k, v := f.term(x.Key), f.term(x.Value)
		f.checkFrameMap(m, x.Pos())
		// name the old arrays: each update mentions them twice (exponential in a row of updates otherwise)
		va, da := f.sc.define("mv", f.get(f.cur, vk)), f.sc.define("md", f.get(f.cur, dk))
		f.set(f.cur, vk, sto(va, m, sto(sel(va, m), k, v)))
		f.set(f.cur, dk, sto(da, m, sto(sel(da, m), k, tTrue)))
	case *ssa.Range:
		f.vals[x] = termVal(f.sc.fresh("iter", "Int"))
		f.rangeOf[x] = x.X
	case *ssa.Next:
		f.next(x)
	case *ssa.Call:
		f.vals[x] = f.doCall(x)
	case *ssa.Defer:
		f.set(f.cur, f.deferKey(x), tTrue)
	case *ssa.RunDefers:
		f.runDefers()
	case *ssa.Go:
		f.note("go statement in " + fnKey(f.fn) + ": the goroutine body is verified as a separate function; scheduling is not modelled")
	case *ssa.Send:
		ch, v := f.term(x.Chan), f.term(x.X)
		f.crash("nil-chan-send", T("Bool", "(not (= %s 0))", ch.S), x.Pos())
		k := f.sentKey(x.Chan.Type().Underlying().(*types.Chan).Elem())
		f.checkFrameSent(ch, x.Pos())
		arr := f.get(f.cur, k)
		es := arrayElemSort(arr.Sort)
		f.set(f.cur, k, sto(arr, ch, app(es, "snoc_"+strings.TrimPrefix(es, "Tr_"), sel(arr, ch), v)))
		f.note("channel send appends to the ghost trace sent(ch); blocking and the receiving goroutine are not modelled")
	case *ssa.Panic:
		pv := f.term(x.X)
		f.checkPanicValue(x)
		f.panics = append(f.panics, &panicEdge{cond: f.curReach, state: f.cloneState(f.cur), pval: pv, what: "panic", pos: x.Pos()})
		f.curReach = tFalse
	case *ssa.Return:
		var rs []Val
		for _, r := range x.Results {
			rs = append(rs, termVal(f.term(r)))
		}
		f.returns = append(f.returns, &retEdge{cond: f.curReach, state: f.cloneState(f.cur), results: rs, pos: x.Pos(), block: f.curBlock, idx: f.curIdx})
	case *ssa.Jump:
		f.addEdge(f.curBlock, f.curBlock.Succs[0], f.curReach)
	case *ssa.If:
		c := f.term(x.Cond)
		cd := f.sc.define("cond", c)
		f.addEdge(f.curBlock, f.curBlock.Succs[0], f.sc.define("edge", and(f.curReach, cd)))
		f.addEdge(f.curBlock, f.curBlock.Succs[1], f.sc.define("edge", and(f.curReach, not(cd))))
	default:
		unsupp("instruction %T (%s)", in, in)
	}
}

func (f *fx) checkPanicValue(x *ssa.Panic) {
	// the operand is an interface; look at how it was made
	errT := f.e.errorType
	okStatic := false
	switch mi := x.X.(type) {
	case *ssa.MakeInterface:
		if types.Implements(mi.X.Type(), errT) {
			okStatic = true
		}
	case *ssa.ChangeInterface:
		if types.Implements(mi.X.Type(), errT) || isRecoveredValue(mi.X) {
			okStatic = true
		}
	default:
		// an interface-typed value: error-typed values are fine; re-panics of a recovered value keep its class
		if types.Implements(x.X.Type(), errT) {
			okStatic = true
		} else if isRecoveredValue(x.X) {
			okStatic = true
		}
	}
	if !okStatic {
		where, txt := f.srcLine(x.Pos())
		base := "crash:panic-non-error"
		f.oblige("crash", fmt.Sprintf("%s#%d", base, f.ordinal(base)), not(f.curReach), nil, where, "panic with a value that is not an error: "+txt)
	}
}

func isRecoveredValue(v ssa.Value) bool {
	switch x := v.(type) {
	case *ssa.Call:
		if b, ok := x.Call.Value.(*ssa.Builtin); ok && b.Name() == "recover" {
			return true
		}
	case *ssa.Phi:
		for _, e := range x.Edges {
			if !isRecoveredValue(e) {
				return false
			}
		}
		return true
	case *ssa.UnOp:
		return false
	}
	return false
}

func (f *fx) unop(x *ssa.UnOp) {
	switch x.Op {
	case token.MUL:
		addr := f.val(x.X)
		if addr.Kind == vTerm {
			f.crash("nil-deref", T("Bool", "(not (= %s 0))", addr.T.S), x.Pos())
		}
		l := f.ptrLoc(addr, x.X.Type())
		if gl, ok := x.X.(*ssa.Global); ok {
			f.guardAccess(gl.Name(), true, Val{}, nil, x, x.Pos())
		}
		v := f.load(f.cur, l)
		v = f.sc.define("ld", v)
		f.assumeTyped(f.cur, v, x.Type())
		f.vals[x] = termVal(v)
	case token.NOT:
		f.vals[x] = termVal(not(f.term(x.X)))
	case token.SUB:
		v := f.term(x.X)
		if v.Sort == "Float" {
			f.sc.declareOnce("fneg", "(declare-fun fneg (Float) Float)")
			f.vals[x] = termVal(app("Float", "fneg", v))
		} else {
			f.vals[x] = termVal(T("Int", "(- %s)", v.S))
		}
	case token.ARROW:
		f.note("channel receive in " + fnKey(f.fn) + " yields an unconstrained value")
		if x.CommaOk {
			f.vals[x] = Val{Kind: vTuple, Tup: []Val{termVal(f.sc.fresh("recv", f.e.sorts.sortOf(x.X.Type().Underlying().(*types.Chan).Elem()))), termVal(f.sc.fresh("recvok", "Bool"))}}
		} else {
			f.vals[x] = termVal(f.sc.fresh("recv", f.e.sorts.sortOf(x.Type())))
		}
	case token.XOR:
		f.sc.declareOnce("op_compl", "(declare-fun op_compl (Int) Int)")
		f.vals[x] = termVal(app("Int", "op_compl", f.term(x.X)))
	default:
		unsupp("unary %s", x.Op)
	}
}

func (f *fx) strEq(a, b Term, av, bv ssa.Value) Term {
	// comparison against a literal: local extensionality
	lit, other := "", Term{}
	isLit := false
	if c, ok := bv.(*ssa.Const); ok && c.Value != nil && c.Value.Kind() == constant.String {
		lit, other, isLit = constant.StringVal(c.Value), a, true
	} else if c, ok := av.(*ssa.Const); ok && c.Value != nil && c.Value.Kind() == constant.String {
		lit, other, isLit = constant.StringVal(c.Value), b, true
	}
	e := eq(a, b)
	if isLit && len(lit) <= 16 {
		parts := []Term{T("Bool", "(= (slen %s) %d)", other.S, len(lit))}
		for i := 0; i < len(lit); i++ {
			parts = append(parts, T("Bool", "(= (sat %s %d) %d)", other.S, i, lit[i]))
		}
		f.sc.assert(eq(e, and(parts...)))
	} else {
		f.sc.assert(implies(e, T("Bool", "(= (slen %s) (slen %s))", a.S, b.S)))
	}
	return e
}

func (f *fx) binop(op token.Token, xv, yv Val, t types.Type, pos token.Pos, xs, ys ssa.Value) Term {
	a, b := f.reify(xv), f.reify(yv)
	srt := a.Sort
	switch op {
	case token.EQL, token.NEQ:
		var e Term
		if srt == "Str" {
			e = f.strEq(a, b, xs, ys)
		} else {
			e = eq(a, b)
		}
		if op == token.NEQ {
			return not(e)
		}
		return e
	}
	switch srt {
	case "Int":
		switch op {
		case token.ADD:
			return T("Int", "(+ %s %s)", a.S, b.S)
		case token.SUB:
			return T("Int", "(- %s %s)", a.S, b.S)
		case token.MUL:
			return mulTerm(f.sc, a, b)
		case token.QUO, token.REM:
			f.crash("div-by-zero", T("Bool", "(not (= %s 0))", b.S), pos)
			fn := "godiv"
			if op == token.REM {
				fn = "gorem"
			}
			declareGoDiv(f.sc)
			return app("Int", fn, a, b)
		case token.LSS:
			return T("Bool", "(< %s %s)", a.S, b.S)
		case token.LEQ:
			return T("Bool", "(<= %s %s)", a.S, b.S)
		case token.GTR:
			return T("Bool", "(> %s %s)", a.S, b.S)
		case token.GEQ:
			return T("Bool", "(>= %s %s)", a.S, b.S)
		case token.AND, token.OR, token.XOR, token.SHL, token.SHR, token.AND_NOT:
			name := "op_" + map[token.Token]string{token.AND: "and", token.OR: "or", token.XOR: "xor", token.SHL: "shl", token.SHR: "shr", token.AND_NOT: "andnot"}[op]
			f.sc.declareOnce(name, fmt.Sprintf("(declare-fun %s (Int Int) Int)", name))
			return app("Int", name, a, b)
		}
	case "Bool":
		switch op {
		case token.AND, token.LAND:
			return and(a, b)
		case token.OR, token.LOR:
			return or(a, b)
		}
	case "Str":
		switch op {
		case token.ADD:
			return app("Str", "sconcat", a, b)
		case token.LSS, token.LEQ, token.GTR, token.GEQ:
			name := "str_" + strings.ToLower(op.String())
			name = map[token.Token]string{token.LSS: "str_lt", token.LEQ: "str_le", token.GTR: "str_gt", token.GEQ: "str_ge"}[op]
			f.sc.declareOnce(name, fmt.Sprintf("(declare-fun %s (Str Str) Bool)", name))
			return app("Bool", name, a, b)
		}
	case "Float":
		name := map[token.Token]string{token.ADD: "fadd", token.SUB: "fsub", token.MUL: "fmul", token.QUO: "fdiv", token.LSS: "flt", token.LEQ: "fle", token.GTR: "fgt", token.GEQ: "fge"}[op]
		if name != "" {
			rs := "Float"
			if op == token.LSS || op == token.LEQ || op == token.GTR || op == token.GEQ {
				rs = "Bool"
			}
			f.sc.declareOnce(name, fmt.Sprintf("(declare-fun %s (Float Float) %s)", name, rs))
			return app(rs, name, a, b)
		}
	}
	unsupp("binary %s on %s", op, srt)
	return Term{}
}

func (f *fx) convert(v Term, from, to types.Type) Term {
	fs, ts := f.e.sorts.sortOf(from), f.e.sorts.sortOf(to)
	if fs == ts {
		if fs == "Int" {
			fb, _ := from.Underlying().(*types.Basic)
			tb, _ := to.Underlying().(*types.Basic)
			if fb != nil && tb != nil && f.e.sizes.Sizeof(tb) < f.e.sizes.Sizeof(fb) {
				f.note("integer conversion " + from.String() + " -> " + to.String() + " treated as the identity (machine arithmetic treated as mathematical)")
			}
		}
		return v
	}
	name := fmt.Sprintf("conv_%s_to_%s", mangle(fs), mangle(ts))
	f.sc.declareOnce(name, fmt.Sprintf("(declare-fun %s (%s) %s)", name, fs, ts))
	r := app(ts, name, v)
	if fs == "Str" && ts == "Slice" {
		// []byte(s): a fresh slice of the same length
		ref := f.newRef("bytes")
		s := T("Slice", "(mk_slice %s 0 (slen %s) (slen %s))", ref.S, v.S, v.S)
		return s
	}
	if fs == "Slice" && ts == "Str" {
		f.sc.assert(T("Bool", "(= (slen %s) (sl_len %s))", r.S, v.S))
	}
	return r
}

func (f *fx) boxName(srt string) string {
	if strings.HasPrefix(srt, "(Array") {
		n := "box_" + mangle(srt)
		f.sc.declareOnce(n, fmt.Sprintf("(declare-fun %s (%s) Int)\n(declare-fun un%s (Int) %s)", n, srt, n, srt))
		return n
	}
	return "box_" + srt
}

func (f *fx) makeIface(v Val, t types.Type) Term {
	tag := f.e.sorts.typeTag(t)
	x := f.reify(v)
	if _, ok := t.Underlying().(*types.Interface); ok {
		return x
	}
	var payload Term
	if x.Sort == "Int" {
		payload = x
	} else {
		payload = app("Int", f.boxName(x.Sort), x)
	}
	isPtr := "false"
	if _, ok := t.Underlying().(*types.Pointer); ok {
		isPtr = "true"
	}
	f.sc.declareOnce(fmt.Sprintf("is_ptr_tag#%d", tag), fmt.Sprintf("(assert (= (is_ptr_tag %d) %s))", tag, isPtr))
	// what the concrete type is known to implement
	errID := f.e.sorts.ifaceID(types.Universe.Lookup("error").Type())
	f.sc.declareOnce(fmt.Sprintf("impl_err#%d", tag), fmt.Sprintf("(assert (= (implements %d %d) %v))", tag, errID, types.Implements(t, f.e.errorType)))
	if f.e.rtErrType != nil {
		if ri, ok := f.e.rtErrType.Underlying().(*types.Interface); ok {
			f.sc.declareOnce(fmt.Sprintf("impl_rterr#%d", tag), fmt.Sprintf("(assert (= (implements %d %d) %v))", tag, f.e.sorts.ifaceID(f.e.rtErrType), types.Implements(t, ri)))
		}
	}
	return T("Iface", "(mk_iface %d %s)", tag, payload.S)
}

func (f *fx) unboxAs(iv Term, t types.Type) Term {
	srt := f.e.sorts.sortOf(t)
	p := T("Int", "(ival %s)", iv.S)
	if srt == "Int" {
		return p
	}
	return app(srt, "un"+f.boxName(srt), p)
}

func (f *fx) typeAssert(x *ssa.TypeAssert) {
	iv := f.term(x.X)
	var ok, res Term
	if it, isIface := x.AssertedType.Underlying().(*types.Interface); isIface {
		if it.NumMethods() == 0 {
			ok = T("Bool", "(not (= (itag %s) 0))", iv.S)
		} else {
			ok = T("Bool", "(and (not (= (itag %s) 0)) (implements (itag %s) %d))", iv.S, iv.S, f.e.sorts.ifaceID(x.AssertedType))
			// static knowledge: if the operand's static type already implements the target, non-nil suffices
			if types.Implements(x.X.Type(), it) {
				ok = T("Bool", "(not (= (itag %s) 0))", iv.S)
			}
		}
		res = iv
	} else {
		tag := f.e.sorts.typeTag(x.AssertedType)
		ok = T("Bool", "(= (itag %s) %d)", iv.S, tag)
		res = f.unboxAs(iv, x.AssertedType)
	}
	if x.CommaOk {
		okc := f.sc.define("taok", ok)
		f.vals[x] = Val{Kind: vTuple, Tup: []Val{termVal(ite(okc, res, f.e.sorts.zero(res.Sort))), termVal(okc)}}
		return
	}
	f.crash("type-assert", ok, x.Pos())
	f.vals[x] = termVal(res)
	f.assumeTyped(f.cur, res, x.AssertedType)
}

func (f *fx) sliceOp(x *ssa.Slice) {
	var lo, hi Term
	lo = intLit(0)
	if x.Low != nil {
		lo = f.term(x.Low)
	}
	switch t := x.X.Type().Underlying().(type) {
	case *types.Basic: // string
		s := f.term(x.X)
		if x.High != nil {
			hi = f.term(x.High)
		} else {
			hi = T("Int", "(slen %s)", s.S)
		}
		f.crash("slice-bounds", T("Bool", "(and (<= 0 %s) (<= %s %s) (<= %s (slen %s)))", lo.S, lo.S, hi.S, hi.S, s.S), x.Pos())
		f.vals[x] = termVal(T("Str", "(substr %s %s %s)", s.S, lo.S, hi.S))
	case *types.Slice:
		s := f.term(x.X)
		if x.High != nil {
			hi = f.term(x.High)
		} else {
			hi = T("Int", "(sl_len %s)", s.S)
		}
		f.crash("slice-bounds", T("Bool", "(and (<= 0 %s) (<= %s %s) (<= %s (sl_cap %s)))", lo.S, lo.S, hi.S, hi.S, s.S), x.Pos())
		f.vals[x] = termVal(T("Slice", "(mk_slice (sl_ref %s) (+ (sl_off %s) %s) (- %s %s) (- (sl_cap %s) %s))", s.S, s.S, lo.S, hi.S, lo.S, s.S, lo.S))
	case *types.Pointer:
		// slicing a pointer to an array: a fresh slice whose contents are not related to the array
		arr := t.Elem().Underlying().(*types.Array)
		if x.High != nil {
			hi = f.term(x.High)
		} else {
			hi = intLit(arr.Len())
		}
		f.crash("slice-bounds", T("Bool", "(and (<= 0 %s) (<= %s %s) (<= %s %d))", lo.S, lo.S, hi.S, hi.S, arr.Len()), x.Pos())
		if bv := f.val(x.X); bv.Kind == vLoc && bv.Loc.Root == rootBacking && len(bv.Loc.Path) == 0 {
			f.vals[x] = termVal(T("Slice", "(mk_slice %s %s (- %s %s) (- %d %s))", bv.Loc.Ref.S, lo.S, hi.S, lo.S, arr.Len(), lo.S))
			return
		}
		ref := f.newRef("arrslice")
		f.note("slice of array in " + fnKey(f.fn) + ": contents not related to the array")
		f.vals[x] = termVal(T("Slice", "(mk_slice %s 0 (- %s %s) (- %d %s))", ref.S, hi.S, lo.S, arr.Len(), lo.S))
	default:
		unsupp("slice of %s", x.X.Type())
	}
}

func (f *fx) lookup(x *ssa.Lookup) {
	switch t := x.X.Type().Underlying().(type) {
	case *types.Map:
		m, k := f.term(x.X), f.term(x.Index)
		vk, dk := f.mapKeys(t)
		inDom := f.sc.define("indom", and(T("Bool", "(not (= %s 0))", m.S), sel(sel(f.get(f.cur, dk), m), k)))
		v := sel(sel(f.get(f.cur, vk), m), k)
		val := f.sc.define("mapval", ite(inDom, v, f.e.sorts.zero(v.Sort)))
		f.assumeTyped(f.cur, val, t.Elem())
		if x.CommaOk {
			f.vals[x] = Val{Kind: vTuple, Tup: []Val{termVal(val), termVal(inDom)}}
		} else {
			f.vals[x] = termVal(val)
		}
	case *types.Basic:
		s, i := f.term(x.X), f.term(x.Index)
		f.crash("index", T("Bool", "(and (<= 0 %s) (< %s (slen %s)))", i.S, i.S, s.S), x.Pos())
		f.vals[x] = termVal(T("Int", "(sat %s %s)", s.S, i.S))
	default:
		unsupp("lookup on %s", x.X.Type())
	}
}

func (f *fx) next(x *ssa.Next) {
	ok := f.sc.fresh("next_ok", "Bool")
	tup := x.Type().(*types.Tuple)
	var kv, vv Term
	ks, vs := f.e.sorts.sortOf(tup.At(1).Type()), f.e.sorts.sortOf(tup.At(2).Type())
	kv = f.sc.fresh("next_k", ks)
	vv = f.sc.fresh("next_v", vs)
	if rng, okr := x.Iter.(*ssa.Range); okr {
		if mt, okm := rng.X.Type().Underlying().(*types.Map); okm {
			m := f.term(rng.X)
			vk, dk := f.mapKeys(mt)
			if tup.At(1).Type() != nil && ks == f.e.sorts.sortOf(mt.Key()) {
				f.sc.assert(implies(ok, and(T("Bool", "(not (= %s 0))", m.S), sel(sel(f.get(f.cur, dk), m), kv))))
				if vs == f.e.sorts.sortOf(mt.Elem()) {
					f.sc.assert(implies(ok, eq(vv, sel(sel(f.get(f.cur, vk), m), kv))))
				}
			}
		}
	}
	f.assumeTyped(f.cur, kv, tup.At(1).Type())
	f.assumeTyped(f.cur, vv, tup.At(2).Type())
	f.vals[x] = Val{Kind: vTuple, Tup: []Val{termVal(ok), termVal(kv), termVal(vv)}}
}

// isRangeIndexPhi recognises the index variable go/ssa introduces for range loops over slices, arrays and strings:
// phi [-1, phi+1].
func isRangeIndexPhi(phi *ssa.Phi) bool {
	if phi.Comment != "rangeindex" || len(phi.Edges) != 2 {
		return false
	}
	c, ok := phi.Edges[0].(*ssa.Const)
	if !ok || c.Value == nil || c.Value.ExactString() != "-1" {
		return false
	}
	b, ok := phi.Edges[1].(*ssa.BinOp)
	if !ok || b.Op != token.ADD || b.X != phi {
		return false
	}
	one, ok := b.Y.(*ssa.Const)
	return ok && one.Value != nil && one.Value.ExactString() == "1"
}

// mulTerm: a product with a numeral factor stays linear; a product of two symbolic factors is the
// uninterpreted gomul (commutative), so that the solvers are never handed nonlinear integer arithmetic.
func mulTerm(sc *Script, a, b Term) Term {
	if isNumeral(a.S) || isNumeral(b.S) {
		return T("Int", "(* %s %s)", a.S, b.S)
	}
	sc.declareOnce("gomul", "(declare-fun gomul (Int Int) Int)\n(assert (forall ((a Int) (b Int)) (! (= (gomul a b) (gomul b a)) :pattern ((gomul a b)))))")
	return app("Int", "gomul", a, b)
}

func isNumeral(s string) bool {
	s = strings.TrimSpace(s)
	if strings.HasPrefix(s, "(- ") && strings.HasSuffix(s, ")") {
		s = strings.TrimSpace(s[3 : len(s)-1])
	}
	if s == "" {
		return false
	}
	for _, c := range s {
		if c < '0' || c > '9' {
			return false
		}
	}
	return true
}

// declareGoDiv: Go's truncating quotient and remainder, defined on the non-negative quadrant only
// (elsewhere they are uninterpreted: nothing is proved from a sign case the axioms do not cover).
func declareGoDiv(sc *Script) {
	sc.declareOnce("godiv", "(declare-fun godiv (Int Int) Int)\n(declare-fun gorem (Int Int) Int)\n(assert (forall ((a Int) (b Int)) (! (=> (and (>= a 0) (> b 0)) (= (godiv a b) (div a b))) :pattern ((godiv a b)))))\n(assert (forall ((a Int) (b Int)) (! (=> (and (>= a 0) (> b 0)) (= (gorem a b) (mod a b))) :pattern ((gorem a b)))))")
}
