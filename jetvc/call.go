package main

import (
	"fmt"
	"sort"
	"go/token"
	"go/types"
	"strings"

	"golang.org/x/tools/go/ssa"
)

const jetPath = "github.com/CloudyKit/jet/v6"

func typeKeyString(t types.Type) string {
	return types.TypeString(t, func(p *types.Package) string {
		if p.Path() == jetPath {
			return ""
		}
		return p.Name()
	})
}

// fnKey is the name under which a function's contract is looked up.
func fnKey(fn *ssa.Function) string {
	name := fn.Name()
	pkgPrefix := ""
	if fn.Pkg != nil && fn.Pkg.Pkg.Path() != jetPath {
		pkgPrefix = fn.Pkg.Pkg.Name() + "."
	} else if fn.Pkg == nil && fn.Object() != nil && fn.Object().Pkg() != nil && fn.Object().Pkg().Path() != jetPath {
		pkgPrefix = fn.Object().Pkg().Name() + "."
	}
	if fn.Parent() != nil {
		// closure: name is parent$N; qualify with the parent's receiver
		p := fn.Parent()
		for p.Parent() != nil {
			p = p.Parent()
		}
		pk := fnKey(p)
		// fn.Name() is like "executeTry$1"; replace the parent part by its key
		if i := strings.Index(name, "$"); i >= 0 {
			return pk + name[i:]
		}
		return pk + "$" + name
	}
	if recv := fn.Signature.Recv(); recv != nil {
		return "(" + typeKeyString(recv.Type()) + ")." + name
	}
	return pkgPrefix + name
}

// ---------------------------------------------------------------------------
// finding the contract for a call

type callTarget struct {
	key      string
	fn       *ssa.Function // static callee if any
	fnv      *FnVal
	contract *Contract
	sig      *types.Signature
	recv     *Val // receiver for invoke
	dynamic  bool
	calleeTerm *Term
	libIface   bool // invoke on an interface type declared outside the repository
}

func (f *fx) resolveCall(c *ssa.CallCommon) *callTarget {
	ct := &callTarget{sig: c.Signature()}
	if c.IsInvoke() {
		rv := f.val(c.Value)
		ct.recv = &rv
		ct.key = "(" + typeKeyString(c.Value.Type()) + ")." + c.Method.Name()
		ct.contract = f.e.specs.Contracts[ct.key]
		if ct.contract == nil {
			// try any interface contract with that method that the static type satisfies
			for _, k := range f.e.specs.Order {
				if !strings.HasSuffix(k, ")."+c.Method.Name()) || !strings.HasPrefix(k, "(") {
					continue
				}
				it := f.e.lookupType(k[1:strings.Index(k, ")")])
				if it == nil {
					continue
				}
				if iface, ok := it.Underlying().(*types.Interface); ok && types.Implements(c.Value.Type(), iface) {
					ct.contract = f.e.specs.Contracts[k]
					ct.key = k
					break
				}
			}
		}
		ct.dynamic = true
		if n, ok := c.Value.Type().(*types.Named); ok {
			if p := n.Obj().Pkg(); p == nil || !strings.HasPrefix(p.Path(), jetPath) {
				ct.libIface = true
			}
		}
		return ct
	}
	v := f.val(c.Value)
	if v.Kind == vFn {
		ct.fn = v.Fn.Fn
		ct.fnv = v.Fn
		ct.key = fnKey(ct.fn)
		ct.contract = f.e.specs.Contracts[ct.key]
		return ct
	}
	// dynamic call through a function value: key by field or by named type
	ct.dynamic = true
	if v.Kind == vTerm {
		t := v.T
		ct.calleeTerm = &t
	}
	if u, ok := c.Value.(*ssa.UnOp); ok {
		if fa, ok := u.X.(*ssa.FieldAddr); ok {
			st := derefType(fa.X.Type())
			if st != nil {
				ct.key = "field:" + typeKeyString(st) + "." + st.Underlying().(*types.Struct).Field(fa.Field).Name()
				ct.contract = f.e.specs.Contracts[ct.key]
			}
		}
	}
	if ct.contract == nil {
		if n, ok := c.Value.Type().(*types.Named); ok {
			ct.key = "type:" + typeKeyString(n)
			ct.contract = f.e.specs.Contracts[ct.key]
		}
	}
	if ct.contract == nil {
		k := "dynamic:" + typeKeyString(c.Value.Type())
		if dc := f.e.specs.Contracts[k]; dc != nil {
			ct.key, ct.contract = k, dc
		}
	}
	if ct.key == "" {
		ct.key = "dynamic:" + typeKeyString(c.Value.Type())
	}
	return ct
}

// callModKeys: state keys a call may modify (for loop havoc).
func (f *fx) callModKeys(ci ssa.CallInstruction) (keys []string, all bool) {
	c := ci.Common()
	if b, ok := c.Value.(*ssa.Builtin); ok {
		switch b.Name() {
		case "append":
			if s, ok := c.Args[0].Type().Underlying().(*types.Slice); ok {
				return []string{f.backingKey(s.Elem()), "E:alloc"}, false
			}
		case "copy":
			if s, ok := c.Args[0].Type().Underlying().(*types.Slice); ok {
				return []string{f.backingKey(s.Elem())}, false
			}
		case "delete":
			if m, ok := c.Args[0].Type().Underlying().(*types.Map); ok {
				_, dk := f.mapKeys(m)
				return []string{dk}, false
			}
		case "recover":
			return []string{"E:panicking"}, false
		}
		return nil, false
	}
	var contract *Contract
	var fn *ssa.Function
	if c.IsInvoke() {
		key := "(" + typeKeyString(c.Value.Type()) + ")." + c.Method.Name()
		contract = f.e.specs.Contracts[key]
		if contract == nil {
			for _, k := range f.e.specs.Order {
				if strings.HasSuffix(k, ")."+c.Method.Name()) && strings.HasPrefix(k, "(") {
					it := f.e.lookupType(k[1:strings.Index(k, ")")])
					if it == nil {
						continue
					}
					if iface, ok := it.Underlying().(*types.Interface); ok && types.Implements(c.Value.Type(), iface) {
						contract = f.e.specs.Contracts[k]
						break
					}
				}
			}
		}
	} else if sf := c.StaticCallee(); sf != nil {
		fn = sf
		contract = f.e.specs.Contracts[fnKey(sf)]
	} else {
		// dynamic
		if u, ok := c.Value.(*ssa.UnOp); ok {
			if fa, ok := u.X.(*ssa.FieldAddr); ok {
				if st := derefType(fa.X.Type()); st != nil {
					contract = f.e.specs.Contracts["field:"+typeKeyString(st)+"."+st.Underlying().(*types.Struct).Field(fa.Field).Name()]
				}
			}
		}
		if contract == nil {
			if n, ok := c.Value.Type().(*types.Named); ok {
				contract = f.e.specs.Contracts["type:"+typeKeyString(n)]
			}
		}
		if contract == nil {
			contract = f.e.specs.Contracts["dynamic:"+typeKeyString(c.Value.Type())]
		}
	}
	if contract == nil {
		if isLibraryFn(fn) {
			return []string{"E:alloc"}, false
		}
		if c.IsInvoke() {
			if n, ok := c.Value.Type().(*types.Named); ok {
				if p := n.Obj().Pkg(); p == nil || !strings.HasPrefix(p.Path(), jetPath) {
					return []string{"E:alloc"}, false
				}
			}
		}
	}
	if contract == nil || contract.Inline {
		if fn != nil && len(fn.Blocks) > 0 && (fn.Parent() != nil || (contract != nil && contract.Inline) || (contract == nil && !isLibraryFn(fn) && smallLoopFree(fn))) {
			// inlined body: collect its stores
			sub := &fx{e: f.e, sc: f.sc, fn: fn, top: f.top, depth: f.depth + 1, vals: map[ssa.Value]Val{}}
			li := &loopInfo{body: map[*ssa.BasicBlock]bool{}}
			for _, b := range fn.Blocks {
				li.body[b] = true
			}
			func() {
				defer func() {
					if r := recover(); r != nil {
						all = true
					}
				}()
				ks, a := sub.loopModKeys(li)
				for k := range ks {
					if !strings.HasPrefix(k, "L:") {
						keys = append(keys, k)
					}
				}
				if a {
					all = true
				}
			}()
			return keys, all
		}
		return nil, true
	}
	keys = append(keys, "E:alloc")
	if contract.NoReturn {
		return keys, false // nothing it changes is visible on a path that continues
	}
	for _, m := range contract.Modifies {
		switch m.Kind {
		case "all":
			return nil, true
		case "ghost":
			keys = append(keys, "X:"+m.Ghost)
		case "type":
			t := f.e.lookupType(m.Type)
			if t == nil {
				unsupp("modifies type %s: unknown type", m.Type)
			}
			keys = append(keys, f.fieldKeyByName(t, m.Field))
		case "point":
			// need the static type of the object expression: resolve against the callee signature
			t := f.modExprType(contract, c, fn, m)
			keys = append(keys, f.fieldKeyByName(t, m.Field))
		case "elems":
			t := f.modExprType(contract, c, fn, m)
			if s, ok := t.Underlying().(*types.Slice); ok {
				keys = append(keys, f.backingKey(s.Elem()))
			} else {
				return nil, true
			}
		case "map":
			t := f.modExprType(contract, c, fn, m)
			if mt, ok := t.Underlying().(*types.Map); ok {
				vk, dk := f.mapKeys(mt)
				keys = append(keys, vk, dk)
			} else {
				return nil, true
			}
		case "cell":
			t := f.modExprType(contract, c, fn, m)
			if e := derefType(t); e != nil {
				keys = append(keys, f.cellKey(e))
			} else {
				return nil, true
			}
		case "sent":
			t := f.modExprType(contract, c, fn, m)
			if ch, ok := t.Underlying().(*types.Chan); ok {
				keys = append(keys, f.sentKey(ch.Elem()))
			} else {
				return nil, true
			}
		case "global":
			keys = append(keys, "G:"+mangle("jet."+m.Ghost))
		case "mapsof":
			t := f.e.lookupType(m.Type)
			if t == nil {
				unsupp("modifies mapsof %s: unknown type", m.Type)
			}
			vk, dk := f.mapKeys(t.Underlying().(*types.Map))
			keys = append(keys, vk, dk)
		}
	}
	return keys, false
}

func (f *fx) fieldKeyByName(t types.Type, field string) string {
	if p := derefType(t); p != nil {
		t = p
	}
	st, ok := t.Underlying().(*types.Struct)
	if !ok {
		unsupp("modifies: %s is not a struct", t)
	}
	for i := 0; i < st.NumFields(); i++ {
		if st.Field(i).Name() == field {
			return f.fieldKey(t, i)
		}
	}
	// promoted through embedded fields
	obj, idx, _ := types.LookupFieldOrMethod(t, true, f.e.jetTypes, field)
	if v, ok := obj.(*types.Var); ok && len(idx) > 1 {
		cur := t
		for _, i := range idx[:len(idx)-1] {
			ft := cur.Underlying().(*types.Struct).Field(i).Type()
			if p := derefType(ft); p != nil {
				ft = p
			}
			cur = ft
		}
		_ = v
		return f.fieldKey(cur, idx[len(idx)-1])
	}
	unsupp("modifies: no field %s in %s", field, t)
	return ""
}

// modExprType computes the static Go type of the object expression of a modifies entry.
func (f *fx) modExprType(contract *Contract, c *ssa.CallCommon, fn *ssa.Function, m *ModEntry) types.Type {
	env := f.typeEnvForCall(contract, c)
	return f.e.staticType(m.Expr, env)
}

// ---------------------------------------------------------------------------
// the call itself

func (f *fx) doCall(ci ssa.CallInstruction) Val {
	c := ci.Common()
	if b, ok := c.Value.(*ssa.Builtin); ok {
		return f.builtin(b, c, ci)
	}
	ct := f.resolveCall(c)
	var args []Val
	if ct.recv != nil {
		// a method call on a nil interface value is a run-time panic
		if rv := f.reify(*ct.recv); rv.Sort == "Iface" && !f.noCrash() {
			f.crash("nil-interface-call", T("Bool", "(not (= (itag %s) 0))", rv.S), ci.Pos())
		}
		args = append(args, *ct.recv)
	}
	for _, a := range c.Args {
		args = append(args, f.val(a))
	}
	return f.applyCall(ct, args, ci.Pos(), ci.Value())
}

func (f *fx) applyCall(ct *callTarget, args []Val, pos token.Pos, resV *ssa.Call) Val {
	if ct.calleeTerm != nil && !f.noCrash() {
		f.crash("nil-func-call", T("Bool", "(not (= %s 0))", ct.calleeTerm.S), pos)
	}
	if n := f.siteOrdinal(ct.key, pos); n >= 0 {
		k := fmt.Sprintf("E:visits:%s#%d", ct.key, n)
		f.regKey(k, "Int")
		f.set(f.cur, k, T("Int", "(+ %s 1)", f.get(f.cur, k).S))
	}
	f.noLockAcrossCall(ct, pos)
	f.callSiteSpecs(ct, args, pos)
	// inline?
	if ct.fn != nil && len(ct.fn.Blocks) > 0 {
		if (ct.contract == nil && ct.fn.Parent() != nil) || (ct.contract != nil && ct.contract.Inline) {
			return f.inline(ct, args, pos)
		}
	}
	if ct.contract == nil {
		if ct.fn != nil && !isLibraryFn(ct.fn) && smallLoopFree(ct.fn) && f.depth < 3 {
			f.note("repository function " + ct.key + " has no contract: inlined (small and loop-free)")
			v := f.inline(ct, args, pos)
			f.recordInlineRet(ct, v, pos)
			return v
		}
		return f.unknownCall(ct, args, pos)
	}
	return f.contractCall(ct, args, pos)
}

// recordInlineRet: lastret("key", i) and siteret("key", site, i) also work for callees that were inlined.
func (f *fx) recordInlineRet(ct *callTarget, v Val, pos token.Pos) {
	n := len(resultTypes(ct.fn.Signature))
	if n == 0 {
		return
	}
	rs := []Val{v}
	if n > 1 {
		if v.Kind != vTuple || len(v.Tup) != n {
			return
		}
		rs = v.Tup
	}
	for i, r := range rs {
		if r.Kind != vTerm {
			return
		}
		k := fmt.Sprintf("E:ret:%s:%d", ct.key, i)
		f.regKey(k, r.T.Sort)
		f.set(f.cur, k, r.T)
		if so := f.siteOrdinal(ct.key, pos); so >= 0 {
			sk := fmt.Sprintf("E:sret:%s#%d:%d", ct.key, so, i)
			f.regKey(sk, r.T.Sort)
			f.set(f.cur, sk, r.T)
		}
	}
}

// noLockAcrossCall: calls into the repository (or into user code) must not be made while a lock is held.
func (f *fx) noLockAcrossCall(ct *callTarget, pos token.Pos) {
	if _, ok := f.e.specs.Ghosts["Held"]; !ok {
		return
	}
	if isLibraryFn(ct.fn) || ct.libIface {
		return
	}
	if ct.fn != nil && !f.e.lockUsers()[fnKey(ct.fn)] {
		return // the callee (transitively) never takes a lock nor touches guarded state
	}
	if _, ok := f.e.keySorts["X:Held"]; !ok {
		return
	}
	h := f.get(f.cur, "X:Held")
	if h.S == f.get(f.top.entry, "X:Held").S {
		return // no lock operation happened on this path so far
	}
	where, txt := f.srcLine(pos)
	g := T("Bool", "(forall ((m Int)) (= (select %s m) 0))", h.S)
	f.oblige("guard", fmt.Sprintf("guard:no-lock-held-across-call#%d", f.ordinal("guard:nolock")), g, []string{"C11"}, where, "call of "+ct.key+" while a lock may be held: "+txt)
}

// callSiteSpecs checks the caller's "callsite" clauses for this call.
func (f *fx) callSiteSpecs(ct *callTarget, args []Val, pos token.Pos) {
	if f.top.contract == nil || f != f.top && false {
		return
	}
	var specs []*CallSiteSpec
	for _, cs := range f.top.contract.CallSites {
		if cs.Callee == ct.key && cs.Clause != nil {
			specs = append(specs, cs)
		}
	}
	if len(specs) == 0 {
		return
	}
	// ordinal of the static call site (a deferred call is executed on the normal and on the panic path)
	sk := fmt.Sprintf("callsite:%s@%d", ct.key, pos)
	n := f.siteOrdinal(ct.key, pos)
	if n < 0 {
		// a call inside an inlined callee (e.g. a deferred method): no ordinal in this function's own text
		n = 1000
	}
	visit := f.ordinal(sk + "#visit")
	where, txt := f.srcLine(pos)
	for i, cs := range specs {
		if cs.Which >= 0 && cs.Which != n {
			continue
		}
		if f.top.matchedSites == nil {
			f.top.matchedSites = map[*CallSiteSpec]bool{}
		}
		f.top.matchedSites[cs] = true
		env := f.callEnv(ct, args, f.cur, f.cur, nil)
		env.callee = map[string]bool{}
		for k := range env.vars {
			env.callee[k] = true
		}
		// caller's own parameters and locals are visible unless shadowed by callee parameter names
		for k, v := range f.top.topEnv.vars {
			if _, clash := env.vars[k]; !clash {
				env.vars[k] = v
			}
		}
		env.old = f.top.entry
		env.atLoop = true
		env.f = f
		env.caller = f.top.topEnv.vars
		g := f.specBool(cs.Clause, env)
		name := fmt.Sprintf("callsite:%s#%d/requires%s", ct.key, n, clauseName(cs.Clause, i))
		if visit > 0 {
			name += fmt.Sprintf("/path%d", visit)
		}
		f.oblige("callsite", name, g, cs.Clause.Props, where, "at this call of "+ct.key+": "+cs.Clause.Src+" | "+txt)
	}
}

func (f *fx) noCrash() bool { return f.top.contract != nil && f.top.contract.NoCrash }

// smallLoopFree: candidates for inlining when no contract is given.
func smallLoopFree(fn *ssa.Function) bool {
	if len(fn.Blocks) == 0 {
		return false
	}
	n := 0
	for _, b := range fn.Blocks {
		n += len(b.Instrs)
		for _, s := range b.Succs {
			if s.Dominates(b) {
				return false
			}
		}
		for _, in := range b.Instrs {
			switch in.(type) {
			case *ssa.Defer, *ssa.Go:
				return false
			}
		}
	}
	return n <= 120
}

func resultTypes(sig *types.Signature) []types.Type {
	var ts []types.Type
	for i := 0; i < sig.Results().Len(); i++ {
		ts = append(ts, sig.Results().At(i).Type())
	}
	return ts
}

func (f *fx) packResults(rs []Val) Val {
	switch len(rs) {
	case 0:
		return Val{Kind: vTuple}
	case 1:
		return rs[0]
	}
	return Val{Kind: vTuple, Tup: rs}
}

func (f *fx) raise(cond Term, st *State, pval Term, what string, pos token.Pos) {
	pe := &panicEdge{cond: cond, state: st, pval: pval, what: what, pos: pos}
	if f.inPanic {
		f.panicsOut = append(f.panicsOut, pe)
	} else {
		f.panics = append(f.panics, pe)
	}
}

func (f *fx) freshErrPanicValue() Term {
	pv := f.sc.fresh("pval", "Iface")
	f.sc.assert(T("Bool", "(not (= (itag %s) 0))", pv.S))
	// an error-panic carries a value that implements error and is not a runtime.Error (those are crashes)
	f.sc.assert(T("Bool", "(implements (itag %s) %d)", pv.S, f.e.sorts.ifaceID(types.Universe.Lookup("error").Type())))
	if f.e.rtErrType != nil {
		f.sc.assert(T("Bool", "(not (implements (itag %s) %d))", pv.S, f.e.sorts.ifaceID(f.e.rtErrType)))
	}
	return pv
}

// libraryCall: default for functions of packages outside the repository that have no contract:
// they do not touch the interpreter's heap, may panic with an error, and return arbitrary values.
func (f *fx) libraryCall(ct *callTarget, args []Val, pos token.Pos) Val {
	if totalLibrary(ct) {
		f.note(fmt.Sprintf("library function %s has no contract: assumed total (never panics), not to modify any state tracked here, and to return arbitrary well-typed values", ct.key))
	} else {
		f.note(fmt.Sprintf("library function %s has no contract: assumed not to modify any state tracked here, to return arbitrary well-typed values, and possibly to panic with an error", ct.key))
		exc := f.sc.fresh("exc", "Bool")
		f.raise(f.sc.define("edge", and(f.curReach, exc)), f.cloneState(f.cur), f.freshErrPanicValue(), "call "+ct.key, pos)
		f.curReach = f.sc.define("reach", and(f.curReach, not(exc)))
	}
	post := f.cloneState(f.cur)
	f.bumpAlloc(post, f.cur)
	f.cur = post
	var rs []Val
	for _, t := range resultTypes(ct.sig) {
		r := f.sc.fresh("ret", f.e.sorts.sortOf(t))
		f.assumeTyped(f.cur, r, t)
		rs = append(rs, termVal(r))
	}
	// spec: ncalls("key"), lastret("key", i) also work for library callees without a contract
	f.countCall(ct.key)
	for i, r := range rs {
		k := fmt.Sprintf("E:ret:%s:%d", ct.key, i)
		f.regKey(k, r.T.Sort)
		f.set(f.cur, k, r.T)
		if n := f.siteOrdinal(ct.key, pos); n >= 0 {
			sk := fmt.Sprintf("E:sret:%s#%d:%d", ct.key, n, i)
			f.regKey(sk, r.T.Sort)
			f.set(f.cur, sk, r.T)
		}
	}
	return f.packResults(rs)
}

// totalLibrary: packages whose exported functions are total for all arguments that matter here.
var totalPkgs = map[string]bool{"strings": true, "unicode": true, "unicode/utf8": true, "bytes": true, "strconv": true, "path": true, "path/filepath": true, "sort": true, "fmt": true, "errors": true, "html": true, "net/url": true}

func totalLibrary(ct *callTarget) bool {
	if ct.fn == nil {
		return false
	}
	var pkg *types.Package
	if ct.fn.Pkg != nil {
		pkg = ct.fn.Pkg.Pkg
	} else if ct.fn.Object() != nil {
		pkg = ct.fn.Object().Pkg()
	}
	if pkg == nil || !totalPkgs[pkg.Path()] {
		return false
	}
	switch ct.fn.Name() {
	case "Repeat": // strings.Repeat panics on a negative count
		return false
	}
	return true
}

func isLibraryFn(fn *ssa.Function) bool {
	if fn == nil {
		return false
	}
	var pkg *types.Package
	if fn.Pkg != nil {
		pkg = fn.Pkg.Pkg
	} else if fn.Object() != nil {
		pkg = fn.Object().Pkg()
	}
	return pkg != nil && !strings.HasPrefix(pkg.Path(), jetPath)
}

func (f *fx) unknownCall(ct *callTarget, args []Val, pos token.Pos) Val {
	if isLibraryFn(ct.fn) || ct.libIface {
		return f.libraryCall(ct, args, pos)
	}
	where, _ := f.srcLine(pos)
	f.note(fmt.Sprintf("call of %s has no contract: assumed to modify anything, to return arbitrary values and possibly to panic with an error (never to crash)", ct.key))
	_ = where
	f.checkFrameAll(ct.key, pos)
	exc := f.sc.fresh("exc", "Bool")
	pre := f.cur
	postX := f.havocAll(pre)
	f.bumpAlloc(postX, pre)
	f.raise(f.sc.define("edge", and(f.curReach, exc)), postX, f.freshErrPanicValue(), "call "+ct.key, pos)
	f.cur = f.havocAll(pre)
	f.bumpAlloc(f.cur, pre)
	f.curReach = f.sc.define("reach", and(f.curReach, not(exc)))
	var rs []Val
	for _, t := range resultTypes(ct.sig) {
		r := f.sc.fresh("ret", f.e.sorts.sortOf(t))
		f.assumeTyped(f.cur, r, t)
		rs = append(rs, termVal(r))
	}
	return f.packResults(rs)
}

func (f *fx) bumpAlloc(post, pre *State) {
	old := f.get(pre, "E:alloc")
	n := f.sc.fresh("alloc", "Int")
	f.sc.assert(T("Bool", "(>= %s %s)", n.S, old.S))
	f.set(post, "E:alloc", n)
	if _, ok := f.top.epochAlloc[epochOf(post)]; !ok {
		f.top.epochAlloc[epochOf(post)] = n
	}
}

// paramNames returns the names under which arguments are visible in the contract.
func contractParamNames(c *Contract, sig *types.Signature, hasRecv bool) []string {
	var names []string
	if hasRecv {
		n := "recv"
		if sig.Recv() != nil && sig.Recv().Name() != "" && sig.Recv().Name() != "_" {
			n = sig.Recv().Name()
		}
		names = append(names, n)
	}
	for i := 0; i < sig.Params().Len(); i++ {
		n := sig.Params().At(i).Name()
		if n == "" || n == "_" {
			n = fmt.Sprintf("arg%d", i)
		}
		names = append(names, n)
	}
	if c != nil && len(c.Params) > 0 {
		for i := range names {
			if i < len(c.Params) && c.Params[i] != "" && c.Params[i] != "_" {
				names[i] = c.Params[i]
			}
		}
	}
	return names
}

func contractParamTypes(sig *types.Signature, hasRecv bool, recvT types.Type) []types.Type {
	var ts []types.Type
	if hasRecv {
		if recvT != nil {
			ts = append(ts, recvT)
		} else {
			ts = append(ts, sig.Recv().Type())
		}
	}
	for i := 0; i < sig.Params().Len(); i++ {
		ts = append(ts, sig.Params().At(i).Type())
	}
	return ts
}

func (f *fx) callEnv(ct *callTarget, args []Val, pre, post *State, results []Val) *Env {
	hasRecv := ct.recv != nil || (ct.fn != nil && ct.fn.Signature.Recv() != nil)
	sig := ct.sig
	var recvT types.Type
	if ct.fn != nil {
		sig = ct.fn.Signature
	}
	if ct.recv != nil {
		recvT = nil
	}
	names := contractParamNames(ct.contract, sig, hasRecv)
	var ptypes []types.Type
	if ct.recv != nil {
		// invoke: receiver is the interface value
		ptypes = append(ptypes, f.e.ifaceTypeOfKey(ct.key))
		for i := 0; i < sig.Params().Len(); i++ {
			ptypes = append(ptypes, sig.Params().At(i).Type())
		}
	} else {
		ptypes = contractParamTypes(sig, hasRecv, recvT)
	}
	env := &Env{f: f, vars: map[string]TV{}, cur: post, old: pre}
	if ct.calleeTerm != nil {
		env.vars["callee"] = TV{V: termVal(*ct.calleeTerm), GoT: sig}
	} else if ct.fn != nil {
		env.vars["callee"] = TV{V: termVal(f.e.fnID(ct.fn)), GoT: sig}
	}
	for i, n := range names {
		if i < len(args) {
			var t types.Type
			if i < len(ptypes) {
				t = ptypes[i]
			}
			env.vars[n] = TV{V: args[i], GoT: t}
		}
	}
	rts := resultTypes(sig)
	for i, r := range results {
		tv := TV{V: r, GoT: rts[i]}
		env.vars[fmt.Sprintf("result%d", i)] = tv
		if i == 0 {
			env.vars["result"] = tv
		}
		if n := sig.Results().At(i).Name(); n != "" && n != "_" {
			if _, clash := env.vars[n]; !clash {
				env.vars[n] = tv
			}
		}
	}
	return env
}

// applyModifies havocs what the contract allows to change.
func (f *fx) applyModifies(ct *callTarget, env *Env, pre *State, tag string) *State {
	post := f.cloneState(pre)
	for _, m := range ct.contract.Modifies {
		switch m.Kind {
		case "all":
			post = f.havocAll(pre)
		}
	}
	f.bumpAlloc(post, pre)
	penv := *env
	penv.cur = pre
	for _, m := range ct.contract.Modifies {
		switch m.Kind {
		case "ghost":
			k := "X:" + m.Ghost
			g := f.e.specs.Ghosts[m.Ghost]
			if g == nil {
				unsupp("modifies ghost %s: not declared", m.Ghost)
			}
			f.regKey(k, f.e.specSort(g.Type))
			f.set(post, k, f.freshHeap(k, tag, f.get(post, "E:alloc")))
		case "type":
			t := f.e.lookupType(m.Type)
			if t == nil {
				unsupp("modifies type %s", m.Type)
			}
			k := f.fieldKeyByName(t, m.Field)
			f.set(post, k, f.freshHeap(k, tag, f.get(post, "E:alloc")))
		case "point":
			obj := f.evalSpec(m.Expr, &penv)
			ref := f.reify(obj.V)
			k := f.fieldKeyByName(obj.GoT, m.Field)
			arr := f.get(post, k)
			nv := f.sc.fresh(k+tag, arrayElemSort(arr.Sort))
			if f.e.keyIsRef[k] {
				f.sc.assert(T("Bool", "(and (<= 0 %s) (<= %s %s))", nv.S, nv.S, f.get(post, "E:alloc").S))
			}
			f.set(post, k, sto(arr, ref, nv))
		case "elems":
			obj := f.evalSpec(m.Expr, &penv)
			s := f.reify(obj.V)
			st, ok := obj.GoT.Underlying().(*types.Slice)
			if !ok {
				unsupp("modifies elems of non-slice")
			}
			k := f.backingKey(st.Elem())
			arr := f.get(post, k)
			f.set(post, k, sto(arr, T("Int", "(sl_ref %s)", s.S), f.sc.fresh(k+tag, arrayElemSort(arr.Sort))))
		case "map":
			obj := f.evalSpec(m.Expr, &penv)
			mref := f.reify(obj.V)
			mt, ok := obj.GoT.Underlying().(*types.Map)
			if !ok {
				unsupp("modifies map of non-map")
			}
			vk, dk := f.mapKeys(mt)
			for _, k := range []string{vk, dk} {
				arr := f.get(post, k)
				f.set(post, k, sto(arr, mref, f.sc.fresh(k+tag, arrayElemSort(arr.Sort))))
			}
		case "cell":
			obj := f.evalSpec(m.Expr, &penv)
			ref := f.reify(obj.V)
			e := derefType(obj.GoT)
			if e == nil {
				unsupp("modifies cell of non-pointer")
			}
			k := f.cellKey(e)
			arr := f.get(post, k)
			f.set(post, k, sto(arr, ref, f.sc.fresh(k+tag, arrayElemSort(arr.Sort))))
		case "sent":
			obj := f.evalSpec(m.Expr, &penv)
			ch, ok := obj.GoT.Underlying().(*types.Chan)
			if !ok {
				unsupp("modifies sent of non-channel")
			}
			k := f.sentKey(ch.Elem())
			arr := f.get(post, k)
			f.set(post, k, sto(arr, f.reify(obj.V), f.sc.fresh(k+tag, arrayElemSort(arr.Sort))))
		case "mapsof":
			t := f.e.lookupType(m.Type)
			if t == nil {
				unsupp("modifies mapsof %s: unknown type", m.Type)
			}
			vk, dk := f.mapKeys(t.Underlying().(*types.Map))
			for _, k := range []string{vk, dk} {
				f.set(post, k, f.freshHeap(k, tag, f.get(post, "E:alloc")))
			}
		case "global":
			k := "G:" + mangle("jet."+m.Ghost)
			if _, ok := f.e.keySorts[k]; !ok {
				obj := f.e.jetTypes.Scope().Lookup(m.Ghost)
				if obj == nil {
					unsupp("modifies global %s: not found", m.Ghost)
				}
				f.regKey(k, f.e.sorts.sortOf(obj.Type()))
			}
			f.set(post, k, f.freshHeap(k, tag, f.get(post, "E:alloc")))
		}
	}
	return post
}

// calleeKeyOf computes the contract key of a call without resolving values.
func calleeKeyOf(c *ssa.CallCommon) string {
	if _, ok := c.Value.(*ssa.Builtin); ok {
		return ""
	}
	if c.IsInvoke() {
		return "(" + typeKeyString(c.Value.Type()) + ")." + c.Method.Name()
	}
	if sf := c.StaticCallee(); sf != nil {
		return fnKey(sf)
	}
	return ""
}

// siteOrdinal: ordinal of a static call site among all call sites of the same callee in the
// function under contract (including its anonymous functions), ordered by source position.
func (f *fx) siteOrdinal(key string, pos token.Pos) int {
	t := f.top
	if t.siteOrds == nil {
		t.siteOrds = map[string]map[token.Pos]int{}
	}
	m, ok := t.siteOrds[key]
	if !ok {
		var ps []token.Pos
		var walk func(fn *ssa.Function)
		walk = func(fn *ssa.Function) {
			for _, b := range fn.Blocks {
				for _, in := range b.Instrs {
					if ci, ok := in.(ssa.CallInstruction); ok && calleeKeyOf(ci.Common()) == key {
						ps = append(ps, ci.Pos())
					}
				}
			}
			for _, a := range fn.AnonFuncs {
				walk(a)
			}
		}
		walk(t.fn)
		sort.Slice(ps, func(i, j int) bool { return ps[i] < ps[j] })
		m = map[token.Pos]int{}
		for i, p := range ps {
			if _, dup := m[p]; !dup {
				m[p] = i
			}
		}
		t.siteOrds[key] = m
	}
	if n, ok := m[pos]; ok {
		return n
	}
	return -1
}

func (f *fx) visitsKey(c *ssa.CallCommon, pos token.Pos) string {
	key := calleeKeyOf(c)
	if key == "" {
		return ""
	}
	n := f.siteOrdinal(key, pos)
	if n < 0 {
		return ""
	}
	k := fmt.Sprintf("E:visits:%s#%d", key, n)
	f.regKey(k, "Int")
	return k
}

// countCall increments the per-callee dynamic call counter (spec: ncalls("key")).
func (f *fx) countCall(key string) {
	k := "E:ncalls:" + key
	f.regKey(k, "Int")
	f.set(f.cur, k, T("Int", "(+ %s 1)", f.get(f.cur, k).S))
}

func (f *fx) contractCall(ct *callTarget, args []Val, pos token.Pos) Val {
	c := ct.contract
	f.countCall(ct.key)
	n := f.ordinal("call:" + ct.key)
	where, _ := f.srcLine(pos)
	pre := f.cur
	// requires
	renv := f.callEnv(ct, args, pre, pre, nil)
	for i, rq := range c.Requires {
		g := f.specBool(rq, renv)
		if isLibraryFn(ct.fn) || ct.libIface {
			// preconditions of library functions are their documented panic conditions: crash obligations
			if f.noCrash() {
				f.note("crash-freedom of " + fnKey(f.top.fn) + " is assumed, not checked (nocrash)")
				f.sc.assert(implies(f.curReach, g))
				continue
			}
			f.oblige("crash", fmt.Sprintf("crash:call:%s#%d/requires%s", ct.key, n, clauseName(rq, i)), g, nil, where, "documented panic condition of "+ct.key+": "+rq.Src)
			continue
		}
		f.oblige("requires", fmt.Sprintf("call:%s#%d/requires%s", ct.key, n, clauseName(rq, i)), g, rq.Props, where, "precondition of "+ct.key+": "+rq.Src)
	}
	// frame: callee's modifies must be allowed by ours (a callee that never returns normally changes
	// nothing that a normal exit of the caller could observe)
	if !c.NoReturn {
		f.checkFrameCall(ct, renv, pos)
	}
	if c.Trusted {
		f.note("contract of " + ct.key + " is assumed (trusted: " + c.Reason + ")")
	}
	sig := ct.sig
	if ct.fn != nil {
		sig = ct.fn.Signature
	}
	// exceptional exit
	var exc Term
	switch {
	case c.NoPanic:
		exc = tFalse
	case c.NoReturn:
		exc = tTrue
	default:
		exc = f.sc.fresh("exc_"+ct.key, "Bool")
	}
	if exc.S != "false" {
		postX := f.applyModifies(ct, renv, pre, "@x")
		xenv := f.callEnv(ct, args, pre, postX, nil)
		cond := f.sc.define("edge", and(f.curReach, exc))
		for _, ex := range c.Exsures {
			f.sc.assert(implies(cond, f.specBool(ex, xenv)))
		}
		pv := f.freshErrPanicValue()
		if c.AnyPanic {
			pv = f.sc.fresh("pval", "Iface")
			f.sc.assert(T("Bool", "(not (= (itag %s) 0))", pv.S))
		}
		f.raise(cond, postX, pv, "call "+ct.key, pos)
	}
	if exc.S == "true" {
		f.curReach = tFalse
		var rs []Val
		for _, t := range resultTypes(sig) {
			rs = append(rs, termVal(f.e.sorts.zero(f.e.sorts.sortOf(t))))
		}
		return f.packResults(rs)
	}
	post := f.applyModifies(ct, renv, pre, "@c")
	f.cur = post
	f.curReach = f.sc.define("reach", and(f.curReach, not(exc)))
	var rs []Val
	for i, t := range resultTypes(sig) {
		r := f.sc.fresh(fmt.Sprintf("ret%d_%s", i, ct.key), f.e.sorts.sortOf(t))
		f.assumeTyped(post, r, t)
		rs = append(rs, termVal(r))
	}
	for i, r := range rs {
		k := fmt.Sprintf("E:ret:%s:%d", ct.key, i)
		f.regKey(k, r.T.Sort)
		f.set(f.cur, k, r.T)
		if n := f.siteOrdinal(ct.key, pos); n >= 0 {
			// siteret("key", site, i): result of the last call made at that static call site
			sk := fmt.Sprintf("E:sret:%s#%d:%d", ct.key, n, i)
			f.regKey(sk, r.T.Sort)
			f.set(f.cur, sk, r.T)
		}
	}
	eenv := f.callEnv(ct, args, pre, post, rs)
	for _, en := range c.Ensures {
		f.sc.assert(implies(f.curReach, f.specBool(en, eenv)))
	}
	for _, en := range c.Assumes {
		f.sc.assert(implies(f.curReach, f.specBool(en, eenv)))
		f.top.assumptions[fmt.Sprintf("%s: assumed postcondition %s (%s)", ct.key, en.Src, en.Where)] = true
	}
	for _, fr := range c.Fresh {
		if tv, ok := eenv.vars[fr]; ok {
			r := f.reify(tv.V)
			f.sc.assert(implies(f.curReach, T("Bool", "(> %s %s)", refOf(r).S, f.get(pre, "E:alloc").S)))
		}
	}
	return f.packResults(rs)
}

func refOf(t Term) Term {
	if t.Sort == "Slice" {
		return T("Int", "(sl_ref %s)", t.S)
	}
	if t.Sort == "Iface" {
		// the payload of an interface value holding a pointer
		return T("Int", "(ival %s)", t.S)
	}
	return t
}

// inline executes the callee body in place.
func (f *fx) inline(ct *callTarget, args []Val, pos token.Pos) Val {
	if f.depth > 6 {
		unsupp("inlining too deep at %s", ct.key)
	}
	sub := &fx{e: f.e, sc: f.sc, fn: ct.fn, top: f.top, parent: f, depth: f.depth + 1, vals: map[ssa.Value]Val{}, inPanic: false}
	if ct.fnv != nil {
		sub.freeVars = ct.fnv.Bindings
	}
	if len(args) != len(ct.fn.Params) {
		unsupp("inline %s: %d args for %d params", ct.key, len(args), len(ct.fn.Params))
	}
	for i, p := range ct.fn.Params {
		sub.vals[p] = args[i]
	}
	sub.run(f.cur, f.curReach)
	// panics leaving the callee
	for _, pe := range sub.panicsOut {
		f.raise(pe.cond, pe.state, pe.pval, pe.what, pe.pos)
	}
	// merge returns
	var edges []*edge
	for _, r := range sub.returns {
		edges = append(edges, &edge{cond: r.cond, state: r.state})
	}
	f.cur, f.curReach = f.mergeStates(edges)
	nres := ct.fn.Signature.Results().Len()
	var rs []Val
	for i := 0; i < nres; i++ {
		var v Term
		first := true
		for k := len(sub.returns) - 1; k >= 0; k-- {
			r := sub.returns[k]
			if r.cond.S == "false" {
				continue
			}
			rv := f.reify(r.results[i])
			if first {
				v, first = rv, false
			} else {
				v = ite(r.cond, rv, v)
			}
		}
		if first {
			v = f.e.sorts.zero(f.e.sorts.sortOf(ct.fn.Signature.Results().At(i).Type()))
		}
		rs = append(rs, termVal(f.sc.define("inl_ret", v)))
	}
	return f.packResults(rs)
}

// ---------------------------------------------------------------------------
// defers and panics

func (f *fx) deferTarget(d *deferRec) (*callTarget, []Val) {
	c := &d.instr.Call
	ct := &callTarget{sig: c.Signature()}
	// operands are immutable SSA values: evaluate them now
	d.args = nil
	for _, a := range c.Args {
		d.args = append(d.args, f.val(a))
	}
	if _, isB := c.Value.(*ssa.Builtin); !isB {
		d.fnv = f.val(c.Value)
	}
	args := d.args
	if c.IsInvoke() {
		rv := d.fnv
		ct.recv = &rv
		ct.key = "(" + typeKeyString(c.Value.Type()) + ")." + c.Method.Name()
		ct.contract = f.e.specs.Contracts[ct.key]
		ct.dynamic = true
		args = append([]Val{rv}, args...)
		return ct, args
	}
	if d.fnv.Kind == vFn {
		ct.fn = d.fnv.Fn.Fn
		ct.fnv = d.fnv.Fn
		ct.key = fnKey(ct.fn)
		ct.contract = f.e.specs.Contracts[ct.key]
		return ct, args
	}
	ct.dynamic = true
	ct.key = "dynamic:" + typeKeyString(c.Value.Type())
	return ct, args
}

func (f *fx) runDefers() {
	for i := len(f.defers) - 1; i >= 0; i-- {
		d := f.defers[i]
		flag := f.get(f.cur, d.key)
		if flag.S == "false" {
			continue
		}
		pre, preReach := f.cur, f.curReach
		f.curReach = f.sc.define("reach", and(preReach, flag))
		f.cur = f.cloneState(pre)
		f.set(f.cur, d.key, tFalse)
		ct, args := f.deferTarget(d)
		if b, ok := d.instr.Call.Value.(*ssa.Builtin); ok {
			f.builtin(b, &d.instr.Call, d.instr)
		} else {
			f.applyCall(ct, args, d.instr.Pos(), nil)
		}
		if flag.S != "true" {
			skipped := f.sc.define("edge", and(preReach, not(flag)))
			f.cur, f.curReach = f.mergeStates([]*edge{{cond: f.curReach, state: f.cur}, {cond: skipped, state: pre}})
		}
	}
}

// finishPanics handles panics raised in the body: runs the defers and either
// continues in the recover block or leaves the function exceptionally.
func (f *fx) finishPanics() {
	if len(f.panics) == 0 {
		return
	}
	if len(f.defers) == 0 {
		f.panicsOut = append(f.panicsOut, f.panics...)
		return
	}
	var edges []*edge
	for _, p := range f.panics {
		edges = append(edges, &edge{cond: p.cond, state: p.state})
	}
	st, reach := f.mergeStates(edges)
	// merged panic value
	var pv Term
	first := true
	for k := len(f.panics) - 1; k >= 0; k-- {
		p := f.panics[k]
		if first {
			pv, first = p.pval, false
		} else {
			pv = ite(p.cond, p.pval, pv)
		}
	}
	f.regKey("E:panicking", "Bool")
	f.regKey("E:pval", "Iface")
	f.cur, f.curReach = st, reach
	f.set(f.cur, "E:panicking", tTrue)
	f.set(f.cur, "E:pval", f.sc.define("pval", pv))
	f.inPanic = true
	f.runDefers()
	f.inPanic = false
	still := f.get(f.cur, "E:panicking")
	// not recovered: leaves the function
	if still.S != "false" {
		st2 := f.cloneState(f.cur)
		f.set(st2, "E:panicking", tFalse)
		f.panicsOut = append(f.panicsOut, &panicEdge{cond: f.sc.define("edge", and(f.curReach, still)), state: st2, pval: f.get(f.cur, "E:pval"), what: "unrecovered panic"})
	}
	if still.S != "true" {
		// recovered: continue at the recover block (or return zero values)
		cond := f.sc.define("edge", and(f.curReach, not(still)))
		f.regKey("E:recovered", "Bool")
		f.set(f.cur, "E:recovered", tTrue)
		if f.fn.Recover != nil {
			f.execBlock(f.fn.Recover, []*edge{{cond: cond, state: f.cur}})
			// the recover block ends in a return, which execBlock recorded; it may contain RunDefers? no.
		} else {
			var rs []Val
			for _, t := range resultTypes(f.fn.Signature) {
				rs = append(rs, termVal(f.e.sorts.zero(f.e.sorts.sortOf(t))))
			}
			f.returns = append(f.returns, &retEdge{cond: cond, state: f.cloneState(f.cur), results: rs})
		}
	}
}

// mapLen: len(m) as an uninterpreted function of the map's current domain (0 for the nil map).
func (f *fx) mapLen(st *State, m Term, t *types.Map) Term {
	_, dk := f.mapKeys(t)
	ks := f.e.sorts.sortOf(t.Key())
	name := "maplen_" + mangle(ks)
	f.sc.declareOnce(name, fmt.Sprintf("(declare-fun %s (%s) Int)\n(assert (forall ((d %s)) (! (>= (%s d) 0) :pattern ((%s d)))))", name, arraySort(ks, "Bool"), arraySort(ks, "Bool"), name, name))
	return ite(T("Bool", "(= %s 0)", m.S), intLit(0), app("Int", name, sel(f.get(st, dk), m)))
}

// ---------------------------------------------------------------------------
// builtins

func (f *fx) builtin(b *ssa.Builtin, c *ssa.CallCommon, ci ssa.CallInstruction) Val {
	arg := func(i int) Term { return f.term(c.Args[i]) }
	switch b.Name() {
	case "len":
		a := arg(0)
		switch t := c.Args[0].Type().Underlying().(type) {
		case *types.Basic:
			return termVal(T("Int", "(slen %s)", a.S))
		case *types.Slice:
			return termVal(T("Int", "(sl_len %s)", a.S))
		case *types.Array:
			return termVal(intLit(t.Len()))
		case *types.Map:
			return termVal(f.mapLen(f.cur, a, t))
		case *types.Pointer:
			if at, ok := t.Elem().Underlying().(*types.Array); ok {
				return termVal(intLit(at.Len()))
			}
		case *types.Chan:
			r := f.sc.fresh("chanlen", "Int")
			return termVal(r)
		}
	case "cap":
		a := arg(0)
		if _, ok := c.Args[0].Type().Underlying().(*types.Slice); ok {
			return termVal(T("Int", "(sl_cap %s)", a.S))
		}
	case "append":
		s := arg(0)
		st := c.Args[0].Type().Underlying().(*types.Slice)
		k := f.backingKey(st.Elem())
		es := f.e.sorts.sortOf(st.Elem())
		// the appended elements: either a slice (variadic) or, for append([]byte, string...), a string
		add := arg(1)
		var addLen Term
		if add.Sort == "Str" {
			addLen = T("Int", "(slen %s)", add.S)
		} else {
			addLen = T("Int", "(sl_len %s)", add.S)
		}
		fresh := f.newRef("append")
		newLen := f.sc.define("alen", T("Int", "(+ (sl_len %s) %s)", s.S, addLen.S))
		newCap := f.sc.fresh("acap", "Int")
		f.sc.assert(T("Bool", "(>= %s %s)", newCap.S, newLen.S))
		// append reuses the backing array when the capacity suffices: the result is then NOT a fresh slice
		// (elements of the old backing beyond the new length are left unconstrained: an over-approximation)
		inplace := f.sc.define("inplace", T("Bool", "(and (not (= (sl_ref %s) 0)) (>= (sl_cap %s) %s))", s.S, s.S, newLen.S))
		ref := f.sc.define("aref", T("Int", "(ite %s (sl_ref %s) %s)", inplace.S, s.S, fresh.S))
		off := f.sc.define("aoff", T("Int", "(ite %s (sl_off %s) 0)", inplace.S, s.S))
		res := T("Slice", "(mk_slice %s %s %s (ite %s (sl_cap %s) %s))", ref.S, off.S, newLen.S, inplace.S, s.S, newCap.S)
		// contents: res[i] = s[i] for i < len(s); res[len(s)+j] = add[j]
		arr := f.get(f.cur, k)
		nb := f.sc.fresh("abacking", arraySort("Int", es))
		f.sc.assert(T("Bool", "(forall ((i Int)) (! (=> (and (<= 0 i) (< i (sl_len %s))) (= (select %s (idx_add %s i)) (select (select %s (sl_ref %s)) (idx_add (sl_off %s) i)))) :pattern ((select %s (idx_add %s i)))))", s.S, nb.S, off.S, arr.S, s.S, s.S, nb.S, off.S))
		if add.Sort == "Slice" {
			f.sc.assert(T("Bool", "(forall ((j Int)) (! (=> (and (<= 0 j) (< j (sl_len %s))) (= (select %s (idx_add %s (+ (sl_len %s) j))) (select (select %s (sl_ref %s)) (idx_add (sl_off %s) j)))) :pattern ((select (select %s (sl_ref %s)) (idx_add (sl_off %s) j)))))", add.S, nb.S, off.S, s.S, arr.S, add.S, add.S, arr.S, add.S, add.S))
			// the common single-element case, stated directly
			f.sc.assert(T("Bool", "(=> (= (sl_len %s) 1) (= (select %s (idx_add %s (sl_len %s))) (select (select %s (sl_ref %s)) (idx_add (sl_off %s) 0))))", add.S, nb.S, off.S, s.S, arr.S, add.S, add.S))
		}
		f.set(f.cur, k, sto(arr, ref, nb))
		return termVal(f.sc.define("appended", res))
	case "copy":
		dst := arg(0)
		st := c.Args[0].Type().Underlying().(*types.Slice)
		k := f.backingKey(st.Elem())
		arr := f.get(f.cur, k)
		f.checkFrameElems(dst, ci.Pos())
		f.set(f.cur, k, sto(arr, T("Int", "(sl_ref %s)", dst.S), f.sc.fresh("copied", arrayElemSort(arr.Sort))))
		f.note("copy() havocs the destination elements")
		return termVal(f.sc.fresh("ncopied", "Int"))
	case "delete":
		m, key := arg(0), arg(1)
		mt := c.Args[0].Type().Underlying().(*types.Map)
		_, dk := f.mapKeys(mt)
		da := f.get(f.cur, dk)
		f.checkFrameMap(m, ci.Pos())
		f.set(f.cur, dk, sto(da, m, sto(sel(da, m), key, tFalse)))
		return Val{Kind: vTuple}
	case "recover":
		f.regKey("E:panicking", "Bool")
		f.regKey("E:pval", "Iface")
		var p Term
		if t, ok := f.cur.m["E:panicking"]; ok {
			p = t
		} else {
			p = tFalse
		}
		r := ite(p, f.get(f.cur, "E:pval"), f.e.sorts.zero("Iface"))
		f.set(f.cur, "E:panicking", tFalse)
		return termVal(f.sc.define("recovered", r))
	case "close":
		f.note("close(chan) is a no-op in the model")
		return Val{Kind: vTuple}
	case "print", "println":
		return Val{Kind: vTuple}
	case "complex", "real", "imag":
		name := "cplx_" + b.Name()
		var args []Term
		var sorts []string
		for i := range c.Args {
			a := arg(i)
			args = append(args, a)
			sorts = append(sorts, a.Sort)
		}
		f.sc.declareOnce(name, fmt.Sprintf("(declare-fun %s (%s) Float)", name, strings.Join(sorts, " ")))
		return termVal(app("Float", name, args...))
	case "min", "max":
		a, bb := arg(0), arg(1)
		if b.Name() == "min" {
			return termVal(ite(T("Bool", "(<= %s %s)", a.S, bb.S), a, bb))
		}
		return termVal(ite(T("Bool", "(>= %s %s)", a.S, bb.S), a, bb))
	}
	unsupp("builtin %s on %s", b.Name(), c.Args[0].Type())
	return Val{}
}

// ---------------------------------------------------------------------------
// frame checks: everything the verified function changes must be covered by its modifies clause

func (f *fx) frameEnabled() bool {
	c := f.top.contract
	if c == nil {
		return false
	}
	for _, m := range c.Modifies {
		if m.Kind == "all" {
			return false
		}
	}
	return true
}

// allowedRefs returns the disjunction "ref is one of the point entries for key" or tTrue for type-wide.
func (f *fx) frameAllows(key string, ref Term) Term {
	c := f.top.contract
	fresh := T("Bool", "(> %s %s)", ref.S, f.top.entryAlloc.S)
	alts := []Term{fresh, T("Bool", "(= %s 0)", ref.S)}
	env := f.top.topEnv.withState(f.top.entry, f.top.entry)
	for _, m := range c.Modifies {
		switch m.Kind {
		case "type":
			t := f.e.lookupType(m.Type)
			if t != nil && f.fieldKeyByName(t, m.Field) == key {
				return tTrue
			}
		case "point":
			obj := f.evalSpec(m.Expr, env)
			if f.fieldKeyByName(obj.GoT, m.Field) == key {
				alts = append(alts, eq(ref, f.reify(obj.V)))
			}
		case "elems":
			obj := f.evalSpec(m.Expr, env)
			if st, ok := obj.GoT.Underlying().(*types.Slice); ok && f.backingKey(st.Elem()) == key {
				alts = append(alts, eq(ref, T("Int", "(sl_ref %s)", f.reify(obj.V).S)))
			}
		case "map":
			obj := f.evalSpec(m.Expr, env)
			if mt, ok := obj.GoT.Underlying().(*types.Map); ok {
				vk, dk := f.mapKeys(mt)
				if vk == key || dk == key {
					alts = append(alts, eq(ref, f.reify(obj.V)))
				}
			}
		case "cell":
			obj := f.evalSpec(m.Expr, env)
			if e := derefType(obj.GoT); e != nil && f.cellKey(e) == key {
				alts = append(alts, eq(ref, f.reify(obj.V)))
			}
		}
	}
	return or(alts...)
}

func (f *fx) frameOblige(key string, ref Term, pos token.Pos, what string) {
	if !f.frameEnabled() {
		return
	}
	g := f.frameAllows(key, ref)
	if g.S == "true" {
		return
	}
	where, txt := f.srcLine(pos)
	base := "frame:" + strings.TrimPrefix(key, "H:")
	f.oblige("frame", fmt.Sprintf("%s#%d", base, f.ordinal(base)), g, nil, where, what+" must be allowed by the modifies clause: "+txt)
}

func (f *fx) checkFrameStore(l *Loc, pos token.Pos) {
	switch l.Root {
	case rootHeap:
		if len(l.Path) == 0 {
			st := l.Typ.Underlying().(*types.Struct)
			for i := 0; i < st.NumFields(); i++ {
				f.frameOblige(f.fieldKey(l.Typ, i), l.Ref, pos, "store")
			}
			return
		}
		f.frameOblige(f.fieldKey(l.Typ, l.Path[0].Field), l.Ref, pos, "store")
	case rootCell:
		f.frameOblige(f.cellKey(l.Typ), l.Ref, pos, "store")
	case rootBacking:
		f.frameOblige(f.backingKey(l.Typ), l.Ref, pos, "store")
	case rootGlobal:
		if f.frameEnabled() {
			ok := false
			for _, m := range f.top.contract.Modifies {
				if m.Kind == "global" && "G:"+mangle("jet."+m.Ghost) == l.Key {
					ok = true
				}
			}
			if !ok {
				where, txt := f.srcLine(pos)
				f.oblige("frame", fmt.Sprintf("frame:%s#%d", l.Key, f.ordinal("frame:"+l.Key)), not(f.curReach), nil, where, "store to package variable not in modifies: "+txt)
			}
		}
	}
}

func (f *fx) checkFrameMap(m Term, pos token.Pos) {
	if !f.frameEnabled() {
		return
	}
	// any map key family: use a generic name
	g := f.frameAllowsMap(m)
	if g.S == "true" {
		return
	}
	where, txt := f.srcLine(pos)
	f.oblige("frame", fmt.Sprintf("frame:map#%d", f.ordinal("frame:map")), g, nil, where, "map update must be allowed by the modifies clause: "+txt)
}

func (f *fx) frameAllowsMap(m Term) Term {
	c := f.top.contract
	if m.S == "0" {
		return tTrue
	}
	for _, me := range c.Modifies {
		if me.Kind == "mapsof" {
			// NOTE: coarse: any mapsof entry licenses map updates (the map's static type is not tracked here)
			return tTrue
		}
	}
	alts := []Term{T("Bool", "(> %s %s)", m.S, f.top.entryAlloc.S), T("Bool", "(= %s 0)", m.S)}
	env := f.top.topEnv.withState(f.top.entry, f.top.entry)
	for _, me := range c.Modifies {
		if me.Kind == "map" {
			obj := f.evalSpec(me.Expr, env)
			alts = append(alts, eq(m, f.reify(obj.V)))
		}
	}
	return or(alts...)
}

func (f *fx) checkFrameElems(s Term, pos token.Pos) {
	if !f.frameEnabled() {
		return
	}
	c := f.top.contract
	ref := T("Int", "(sl_ref %s)", s.S)
	alts := []Term{T("Bool", "(> %s %s)", ref.S, f.top.entryAlloc.S)}
	env := f.top.topEnv.withState(f.top.entry, f.top.entry)
	for _, me := range c.Modifies {
		if me.Kind == "elems" {
			obj := f.evalSpec(me.Expr, env)
			alts = append(alts, eq(ref, T("Int", "(sl_ref %s)", f.reify(obj.V).S)))
		}
	}
	where, txt := f.srcLine(pos)
	f.oblige("frame", fmt.Sprintf("frame:elems#%d", f.ordinal("frame:elems")), or(alts...), nil, where, "element store must be allowed by the modifies clause: "+txt)
}

func (f *fx) checkFrameSent(ch Term, pos token.Pos) {
	if !f.frameEnabled() {
		return
	}
	alts := []Term{T("Bool", "(> %s %s)", ch.S, f.top.entryAlloc.S)}
	env := f.top.topEnv.withState(f.top.entry, f.top.entry)
	for _, me := range f.top.contract.Modifies {
		if me.Kind == "sent" {
			obj := f.evalSpec(me.Expr, env)
			alts = append(alts, eq(ch, f.reify(obj.V)))
		}
	}
	where, txt := f.srcLine(pos)
	f.oblige("frame", fmt.Sprintf("frame:sent#%d", f.ordinal("frame:sent")), or(alts...), nil, where, "channel send must be allowed by the modifies clause: "+txt)
}

func (f *fx) checkFrameAll(callee string, pos token.Pos) {
	if !f.frameEnabled() {
		return
	}
	where, txt := f.srcLine(pos)
	f.oblige("frame", fmt.Sprintf("frame:call:%s#%d", callee, f.ordinal("frame:call:"+callee)), not(f.curReach), nil, where, "call of a function without contract may modify anything: "+txt)
}

// checkFrameCall: each modifies entry of the callee must be covered by the caller's clause.
func (f *fx) checkFrameCall(ct *callTarget, env *Env, pos token.Pos) {
	if !f.frameEnabled() {
		return
	}
	penv := *env
	penv.cur = env.old
	for _, m := range ct.contract.Modifies {
		switch m.Kind {
		case "all":
			f.checkFrameAll(ct.key, pos)
		case "ghost":
			ok := m.Ghost == "Held" // lock state: every lock user is proved to restore it (ensures Held == old(Held))
			for _, mm := range f.top.contract.Modifies {
				if mm.Kind == "ghost" && mm.Ghost == m.Ghost {
					ok = true
				}
			}
			if !ok {
				where, txt := f.srcLine(pos)
				f.oblige("frame", fmt.Sprintf("frame:ghost:%s#%d", m.Ghost, f.ordinal("frame:ghost:"+m.Ghost)), not(f.curReach), nil, where, "callee modifies ghost "+m.Ghost+": "+txt)
			}
		case "type":
			t := f.e.lookupType(m.Type)
			key := f.fieldKeyByName(t, m.Field)
			ok := false
			for _, mm := range f.top.contract.Modifies {
				if mm.Kind == "type" {
					if t2 := f.e.lookupType(mm.Type); t2 != nil && f.fieldKeyByName(t2, mm.Field) == key {
						ok = true
					}
				}
			}
			if !ok {
				where, txt := f.srcLine(pos)
				f.oblige("frame", fmt.Sprintf("frame:%s#%d", strings.TrimPrefix(key, "H:"), f.ordinal("frame:"+key)), not(f.curReach), nil, where, "callee modifies every "+m.Type+"."+m.Field+": "+txt)
			}
		case "point":
			obj := f.evalSpec(m.Expr, &penv)
			f.frameOblige(f.fieldKeyByName(obj.GoT, m.Field), f.reify(obj.V), pos, "callee "+ct.key+" modifies "+m.Src)
		case "elems":
			obj := f.evalSpec(m.Expr, &penv)
			f.checkFrameElems(f.reify(obj.V), pos)
		case "map":
			obj := f.evalSpec(m.Expr, &penv)
			f.checkFrameMap(f.reify(obj.V), pos)
		case "cell":
			obj := f.evalSpec(m.Expr, &penv)
			if e := derefType(obj.GoT); e != nil {
				f.frameOblige(f.cellKey(e), f.reify(obj.V), pos, "callee "+ct.key+" modifies "+m.Src)
			}
		case "sent":
			obj := f.evalSpec(m.Expr, &penv)
			f.checkFrameSent(f.reify(obj.V), pos)
		case "mapsof":
			ok := false
			for _, mm := range f.top.contract.Modifies {
				if mm.Kind == "mapsof" && mm.Type == m.Type {
					ok = true
				}
			}
			if !ok {
				where, txt := f.srcLine(pos)
				f.oblige("frame", fmt.Sprintf("frame:mapsof:%s#%d", m.Type, f.ordinal("frame:mapsof:"+m.Type)), not(f.curReach), nil, where, "callee modifies every map of type "+m.Type+": "+txt)
			}
		case "global":
			ok := false
			for _, mm := range f.top.contract.Modifies {
				if mm.Kind == "global" && mm.Ghost == m.Ghost {
					ok = true
				}
			}
			if !ok {
				where, txt := f.srcLine(pos)
				f.oblige("frame", fmt.Sprintf("frame:global:%s#%d", m.Ghost, f.ordinal("frame:global:"+m.Ghost)), not(f.curReach), nil, where, "callee modifies package variable "+m.Ghost+": "+txt)
			}
		}
	}
}
