package main

import (
	"fmt"
	"go/types"
	"sort"
	"strings"
)

// Term is an SMT-LIB term together with its sort.
type Term struct {
	S    string
	Sort string
}

func T(sort, format string, args ...interface{}) Term {
	return Term{S: fmt.Sprintf(format, args...), Sort: sort}
}

var (
	tTrue  = Term{"true", "Bool"}
	tFalse = Term{"false", "Bool"}
)

func intLit(n int64) Term {
	if n < 0 {
		return Term{fmt.Sprintf("(- %d)", -n), "Int"}
	}
	return Term{fmt.Sprintf("%d", n), "Int"}
}

func and(ts ...Term) Term {
	var parts []string
	for _, t := range ts {
		if t.S == "true" {
			continue
		}
		if t.S == "false" {
			return tFalse
		}
		parts = append(parts, t.S)
	}
	switch len(parts) {
	case 0:
		return tTrue
	case 1:
		return Term{parts[0], "Bool"}
	}
	return Term{"(and " + strings.Join(parts, " ") + ")", "Bool"}
}

func or(ts ...Term) Term {
	var parts []string
	for _, t := range ts {
		if t.S == "false" {
			continue
		}
		if t.S == "true" {
			return tTrue
		}
		parts = append(parts, t.S)
	}
	switch len(parts) {
	case 0:
		return tFalse
	case 1:
		return Term{parts[0], "Bool"}
	}
	return Term{"(or " + strings.Join(parts, " ") + ")", "Bool"}
}

func not(t Term) Term {
	switch t.S {
	case "true":
		return tFalse
	case "false":
		return tTrue
	}
	if strings.HasPrefix(t.S, "(not ") {
		return Term{t.S[5 : len(t.S)-1], "Bool"}
	}
	return Term{"(not " + t.S + ")", "Bool"}
}

func implies(a, b Term) Term {
	if a.S == "true" {
		return b
	}
	if a.S == "false" || b.S == "true" {
		return tTrue
	}
	return Term{"(=> " + a.S + " " + b.S + ")", "Bool"}
}

func eq(a, b Term) Term {
	if a.S == b.S {
		return tTrue
	}
	return Term{"(= " + a.S + " " + b.S + ")", "Bool"}
}

func ite(c, a, b Term) Term {
	if c.S == "true" {
		return a
	}
	if c.S == "false" {
		return b
	}
	if a.S == b.S {
		return a
	}
	return Term{"(ite " + c.S + " " + a.S + " " + b.S + ")", a.Sort}
}

func app(sort, fn string, args ...Term) Term {
	if len(args) == 0 {
		return Term{fn, sort}
	}
	ss := make([]string, len(args))
	for i, a := range args {
		ss[i] = a.S
	}
	return Term{"(" + fn + " " + strings.Join(ss, " ") + ")", sort}
}

func sel(arr, idx Term) Term {
	// arr sort is (Array I E)
	return Term{"(select " + arr.S + " " + idx.S + ")", arrayElemSort(arr.Sort)}
}

func sto(arr, idx, v Term) Term {
	return Term{"(store " + arr.S + " " + idx.S + " " + v.S + ")", arr.Sort}
}

// arrayElemSort parses "(Array I E)" and returns E.
func arrayElemSort(s string) string {
	if !strings.HasPrefix(s, "(Array ") {
		panic("not an array sort: " + s)
	}
	body := s[len("(Array ") : len(s)-1]
	// split top-level two sorts
	depth := 0
	for i, c := range body {
		switch c {
		case '(':
			depth++
		case ')':
			depth--
		case ' ':
			if depth == 0 {
				return body[i+1:]
			}
		}
	}
	panic("bad array sort: " + s)
}

func arrayIdxSort(s string) string {
	body := s[len("(Array ") : len(s)-1]
	depth := 0
	for i, c := range body {
		switch c {
		case '(':
			depth++
		case ')':
			depth--
		case ' ':
			if depth == 0 {
				return body[:i]
			}
		}
	}
	panic("bad array sort: " + s)
}

func arraySort(idx, elem string) string { return "(Array " + idx + " " + elem + ")" }

// ---------------------------------------------------------------------------
// Sorts for Go types

// Sorts keeps the datatype declarations that were needed so far.
type Sorts struct {
	structDecl  map[string]string // sort name -> declare-datatypes text
	structOrder []string
	structInfo  map[string]*structInfo
	opaque      map[string]bool
	traces      map[string]bool
	zeroArrs    map[string]string
	typeTags    map[string]int // types.Type string -> tag
	tagOrder    []string
	ifaceIDs    map[string]int
}

type structInfo struct {
	Sort   string
	T      *types.Struct
	Fields []string // accessor names
	FSorts []string
}

func newSorts() *Sorts {
	return &Sorts{structDecl: map[string]string{}, structInfo: map[string]*structInfo{}, opaque: map[string]bool{}, traces: map[string]bool{}, zeroArrs: map[string]string{}, typeTags: map[string]int{}, ifaceIDs: map[string]int{}}
}

func mangle(s string) string {
	var b strings.Builder
	for _, c := range s {
		switch {
		case c >= 'a' && c <= 'z', c >= 'A' && c <= 'Z', c >= '0' && c <= '9', c == '_':
			b.WriteRune(c)
		case c == '.' || c == '/':
			b.WriteByte('_')
		case c == '*':
			b.WriteString("P")
		case c == '[' || c == ']':
			b.WriteString("B")
		case c == ' ' || c == '(' || c == ')' || c == ',' || c == '{' || c == '}' || c == ';':
			b.WriteString("_")
		default:
			fmt.Fprintf(&b, "x%x", c)
		}
	}
	return b.String()
}

func shortTypeName(t types.Type) string {
	return types.TypeString(t, func(p *types.Package) string {
		if p.Path() == "github.com/CloudyKit/jet/v6" {
			return ""
		}
		return p.Name()
	})
}

// sortOf maps a Go type to an SMT sort name, declaring datatypes on demand.
func (s *Sorts) sortOf(t types.Type) string {
	if t == nil {
		return "Int"
	}
	if n, ok := t.(*types.Named); ok {
		switch shortTypeName(n) {
		case "reflect.Value":
			return "RV"
		}
	}
	switch u := t.Underlying().(type) {
	case *types.Basic:
		switch {
		case u.Info()&types.IsBoolean != 0:
			return "Bool"
		case u.Info()&types.IsString != 0:
			return "Str"
		case u.Info()&types.IsFloat != 0, u.Info()&types.IsComplex != 0:
			return "Float"
		case u.Kind() == types.UntypedNil:
			return "Int"
		}
		return "Int"
	case *types.Pointer, *types.Map, *types.Chan, *types.Signature:
		return "Int"
	case *types.Slice:
		return "Slice"
	case *types.Interface:
		return "Iface"
	case *types.Array:
		return arraySort("Int", s.sortOf(u.Elem()))
	case *types.Struct:
		name := "S_" + mangle(shortTypeName(t))
		if named, ok := t.(*types.Named); ok {
			// opaque external structs
			if p := named.Obj().Pkg(); p != nil && !strings.HasPrefix(p.Path(), "github.com/CloudyKit/jet") {
				o := "Opq_" + mangle(shortTypeName(t))
				s.opaque[o] = true
				return o
			}
		}
		if _, ok := s.structInfo[name]; ok {
			return name
		}
		info := &structInfo{Sort: name, T: u}
		s.structInfo[name] = info // pre-register (recursive types go through pointers => Int)
		var fields []string
		for i := 0; i < u.NumFields(); i++ {
			f := u.Field(i)
			fs := s.sortOf(f.Type())
			acc := name + "_" + mangle(f.Name())
			info.Fields = append(info.Fields, acc)
			info.FSorts = append(info.FSorts, fs)
			fields = append(fields, fmt.Sprintf("(%s %s)", acc, fs))
		}
		if len(fields) == 0 {
			s.structDecl[name] = fmt.Sprintf("(declare-datatypes ((%s 0)) (((mk_%s))))", name, name)
		} else {
			s.structDecl[name] = fmt.Sprintf("(declare-datatypes ((%s 0)) (((mk_%s %s))))", name, name, strings.Join(fields, " "))
		}
		s.structOrder = append(s.structOrder, name)
		return name
	case *types.Tuple:
		return "GoTuple"
	}
	return "Int"
}

func (s *Sorts) typeTag(t types.Type) int {
	k := types.TypeString(t, nil)
	if v, ok := s.typeTags[k]; ok {
		return v
	}
	v := len(s.typeTags) + 1
	s.typeTags[k] = v
	s.tagOrder = append(s.tagOrder, k)
	return v
}

func (s *Sorts) ifaceID(t types.Type) int {
	k := types.TypeString(t, nil)
	if v, ok := s.ifaceIDs[k]; ok {
		return v
	}
	v := len(s.ifaceIDs) + 1
	s.ifaceIDs[k] = v
	return v
}

func (s *Sorts) traceSort(elemSort string) string {
	s.traces[elemSort] = true
	return "Tr_" + mangle(elemSort)
}

func isValueTerm(t string) bool {
	if t == "true" || t == "false" {
		return true
	}
	if strings.HasPrefix(t, "(mk_") || strings.HasPrefix(t, "((as const") || strings.HasPrefix(t, "(- ") {
		return !strings.Contains(t, "str_empty") && !strings.Contains(t, "rv_zero") && !strings.Contains(t, "float_zero") && !strings.Contains(t, "zero_") && !strings.Contains(t, "zeroarr_")
	}
	for _, c := range t {
		if c < '0' || c > '9' {
			return false
		}
	}
	return true
}

// zero returns the zero value term of a sort.
func (s *Sorts) zero(sortName string) Term {
	switch sortName {
	case "Int":
		return Term{"0", "Int"}
	case "Bool":
		return tFalse
	case "Str":
		return Term{"str_empty", "Str"}
	case "Float":
		return Term{"float_zero", "Float"}
	case "Slice":
		return Term{"(mk_slice 0 0 0 0)", "Slice"}
	case "Iface":
		return Term{"(mk_iface 0 0)", "Iface"}
	case "RV":
		return Term{"rv_zero", "RV"}
	}
	if strings.HasPrefix(sortName, "(Array ") {
		ez := s.zero(arrayElemSort(sortName))
		if isValueTerm(ez.S) {
			return Term{fmt.Sprintf("((as const %s) %s)", sortName, ez.S), sortName}
		}
		// constant arrays need a value element in cvc5: use a named array with an axiom instead
		name := "zeroarr_" + mangle(sortName)
		s.zeroArrs[name] = fmt.Sprintf("(declare-const %s %s)\n(assert (forall ((i %s)) (! (= (select %s i) %s) :pattern ((select %s i)))))", name, sortName, arrayIdxSort(sortName), name, ez.S, name)
		return Term{name, sortName}
	}
	if info, ok := s.structInfo[sortName]; ok {
		if len(info.Fields) == 0 {
			return Term{"mk_" + sortName, sortName}
		}
		var parts []string
		for _, fs := range info.FSorts {
			parts = append(parts, s.zero(fs).S)
		}
		return Term{"(mk_" + sortName + " " + strings.Join(parts, " ") + ")", sortName}
	}
	// opaque / uninterpreted sort: a designated zero constant
	return Term{"zero_" + mangle(sortName), sortName}
}

// preamble emits the fixed background theory plus all on-demand declarations.
func (s *Sorts) preamble(extraSorts []string, ufuncs []string, axioms []string) string {
	var b strings.Builder
	b.WriteString(`(set-option :produce-models true)
(set-logic ALL)
(declare-sort Str 0)
(declare-sort Float 0)
(declare-sort RV 0)
(declare-datatypes ((Slice 0)) (((mk_slice (sl_ref Int) (sl_off Int) (sl_len Int) (sl_cap Int)))))
(declare-datatypes ((Iface 0)) (((mk_iface (itag Int) (ival Int)))))
(declare-fun slen (Str) Int)
(declare-fun sat (Str Int) Int)
(declare-const str_empty Str)
(declare-const float_zero Float)
(declare-const rv_zero RV)
(assert (= (slen str_empty) 0))
(assert (forall ((s Str)) (! (>= (slen s) 0) :pattern ((slen s)))))
(assert (forall ((s Str) (i Int)) (! (and (<= 0 (sat s i)) (<= (sat s i) 255)) :pattern ((sat s i)))))
(declare-fun substr (Str Int Int) Str)
(assert (forall ((s Str) (a Int) (b Int)) (! (=> (and (<= 0 a) (<= a b)) (= (slen (substr s a b)) (- b a))) :pattern ((substr s a b)))))
(assert (forall ((s Str) (a Int) (b Int) (i Int)) (! (=> (and (<= 0 i) (< i (- b a))) (= (sat (substr s a b) i) (sat s (+ a i)))) :pattern ((sat (substr s a b) i)))))
(assert (forall ((s Str) (a Int) (b Int) (k Int)) (! (=> (and (<= 0 a) (<= a k) (< k b)) (= (sat s k) (sat (substr s a b) (- k a)))) :pattern ((substr s a b) (sat s k)))))
(declare-fun sconcat (Str Str) Str)
(assert (forall ((a Str) (b Str)) (! (= (slen (sconcat a b)) (+ (slen a) (slen b))) :pattern ((sconcat a b)))))
(assert (forall ((a Str) (b Str) (i Int)) (! (=> (and (<= 0 i) (< i (slen a))) (= (sat (sconcat a b) i) (sat a i))) :pattern ((sat (sconcat a b) i)))))
(assert (forall ((a Str) (b Str) (i Int)) (! (=> (and (<= (slen a) i) (< i (+ (slen a) (slen b)))) (= (sat (sconcat a b) i) (sat b (- i (slen a))))) :pattern ((sat (sconcat a b) i)))))
(declare-fun idx_add (Int Int) Int)
(assert (forall ((a Int) (b Int)) (! (= (idx_add a b) (+ a b)) :pattern ((idx_add a b)))))
(declare-fun implements (Int Int) Bool)
(declare-fun is_ptr_tag (Int) Bool)
(declare-fun box_Str (Str) Int)
(declare-fun unbox_Str (Int) Str)
(assert (forall ((s Str)) (! (= (unbox_Str (box_Str s)) s) :pattern ((box_Str s)))))
(declare-fun box_Bool (Bool) Int)
(declare-fun unbox_Bool (Int) Bool)
(assert (forall ((s Bool)) (! (= (unbox_Bool (box_Bool s)) s) :pattern ((box_Bool s)))))
(declare-fun box_Float (Float) Int)
(declare-fun unbox_Float (Int) Float)
(assert (forall ((s Float)) (! (= (unbox_Float (box_Float s)) s) :pattern ((box_Float s)))))
(declare-fun box_Slice (Slice) Int)
(declare-fun unbox_Slice (Int) Slice)
(assert (forall ((s Slice)) (! (= (unbox_Slice (box_Slice s)) s) :pattern ((box_Slice s)))))
(declare-fun box_RV (RV) Int)
(declare-fun unbox_RV (Int) RV)
(assert (forall ((s RV)) (! (= (unbox_RV (box_RV s)) s) :pattern ((box_RV s)))))
`)
	op := make([]string, 0, len(s.opaque))
	for o := range s.opaque {
		op = append(op, o)
	}
	sort.Strings(op)
	for _, o := range extraSorts {
		fmt.Fprintf(&b, "(declare-sort %s 0)\n", o)
	}
	for _, o := range op {
		fmt.Fprintf(&b, "(declare-sort %s 0)\n(declare-const zero_%s %s)\n", o, o, o)
		fmt.Fprintf(&b, "(declare-fun box_%s (%s) Int)\n(declare-fun unbox_%s (Int) %s)\n", o, o, o, o)
	}
	for _, o := range extraSorts {
		fmt.Fprintf(&b, "(declare-const zero_%s %s)\n", o, o)
	}
	for _, n := range s.structOrder {
		b.WriteString(s.structDecl[n])
		b.WriteString("\n")
		fmt.Fprintf(&b, "(declare-fun box_%s (%s) Int)\n(declare-fun unbox_%s (Int) %s)\n", n, n, n, n)
		fmt.Fprintf(&b, "(assert (forall ((s %s)) (! (= (unbox_%s (box_%s s)) s) :pattern ((box_%s s)))))\n", n, n, n, n)
	}
	trs := make([]string, 0, len(s.traces))
	for t := range s.traces {
		trs = append(trs, t)
	}
	sort.Strings(trs)
	for _, es := range trs {
		n := mangle(es)
		fmt.Fprintf(&b, "(declare-sort Tr_%s 0)\n(declare-const zero_Tr_%s Tr_%s)\n", n, n, n)
		fmt.Fprintf(&b, "(declare-fun snoc_%s (Tr_%s %s) Tr_%s)\n(declare-fun trlen_%s (Tr_%s) Int)\n(declare-fun trlast_%s (Tr_%s) %s)\n(declare-fun trinit_%s (Tr_%s) Tr_%s)\n", n, n, es, n, n, n, n, n, es, n, n, n)
		fmt.Fprintf(&b, "(assert (forall ((t Tr_%s) (v %s)) (! (and (= (trlen_%s (snoc_%s t v)) (+ (trlen_%s t) 1)) (= (trlast_%s (snoc_%s t v)) v) (= (trinit_%s (snoc_%s t v)) t)) :pattern ((snoc_%s t v)))))\n", n, es, n, n, n, n, n, n, n, n)
		fmt.Fprintf(&b, "(assert (forall ((t Tr_%s)) (! (>= (trlen_%s t) 0) :pattern ((trlen_%s t)))))\n", n, n, n)
	}
	zn := make([]string, 0, len(s.zeroArrs))
	for n := range s.zeroArrs {
		zn = append(zn, n)
	}
	sort.Strings(zn)
	for _, n := range zn {
		b.WriteString(s.zeroArrs[n])
		b.WriteString("\n")
	}
	for _, u := range ufuncs {
		b.WriteString(u)
		b.WriteString("\n")
	}
	for _, a := range axioms {
		b.WriteString(a)
		b.WriteString("\n")
	}
	return b.String()
}
