package main

import (
	"fmt"
	"go/ast"
	"go/constant"
	"go/token"
	"go/types"
	"strconv"
	"strings"

	"golang.org/x/tools/go/ssa"
)

// TV is a typed spec value.
type TV struct {
	V   Val
	GoT types.Type // may be nil for spec-only sorts
}

type Env struct {
	f      *fx
	vars   map[string]TV
	cur    *State
	old    *State
	bound  map[string]TV
	atLoop bool
	caller map[string]TV // at call sites: the caller's parameters, as caller.<name>
	prevLoop *loopInfo   // in step clauses: the loop whose head state prev(e) refers to
	callee map[string]bool // at call sites: names of the callee's parameters (they shadow the caller's locals)
	inOld  bool
	localsFallback bool // check clauses at a return: names that are neither parameters nor results are locals
}

func (e *Env) withState(cur, old *State) *Env {
	n := *e
	n.cur, n.old = cur, old
	return &n
}

func (e *Env) child() *Env {
	n := *e
	n.bound = map[string]TV{}
	for k, v := range e.bound {
		n.bound[k] = v
	}
	return &n
}

// envAt builds the environment for loop invariants: parameters plus named locals.
func (f *fx) envAt(st *State) *Env {
	base := f.top.topEnv
	if f != f.top {
		// inlined body: only its own parameters
		base = &Env{f: f, vars: map[string]TV{}}
		for _, p := range f.fn.Params {
			base.vars[p.Name()] = TV{V: f.vals[p], GoT: p.Type()}
		}
	}
	env := base.withState(st, f.top.entry)
	env.f = f
	env.atLoop = true
	return env
}

// lookupLocal resolves a source-level variable name at the current point: the latest definition or
// reference (phi named like the variable, debug reference, or address-taken local) that dominates
// the current block.
// lookupLocal resolves a local variable of the function by its source name; variables that live in memory (named
// results of functions with defers, address-taken locals) are read in state st (the state the clause is evaluated in,
// e.g. the loop-head state under prev()).
func (f *fx) lookupLocal(name string, st *State) (TV, bool) {
	if st == nil {
		st = f.cur
	}
	depth := func(b *ssa.BasicBlock) int {
		n := 0
		for x := b.Idom(); x != nil; x = x.Idom() {
			n++
		}
		return n
	}
	cur := f.curBlock
	bestDepth, bestIdx := -1, -1
	var best TV
	found := false
	consider := func(tv TV, b *ssa.BasicBlock, idx int) {
		if b != cur && !b.Dominates(cur) {
			return
		}
		d := depth(b)
		if d > bestDepth || (d == bestDepth && idx > bestIdx) {
			bestDepth, bestIdx, best, found = d, idx, tv, true
		}
	}
	for _, b := range f.fn.Blocks {
		for i, in := range b.Instrs {
			switch x := in.(type) {
			case *ssa.Phi:
				if x.Comment == name {
					if v, ok := f.vals[x]; ok {
						consider(TV{V: v, GoT: x.Type()}, b, i)
					}
				}
			case *ssa.Alloc:
				if x.Comment == name {
					if v, ok := f.vals[x]; ok && v.Kind == vLoc {
						consider(TV{V: termVal(f.load(st, v.Loc)), GoT: derefType(x.Type())}, b, i)
					}
				}
			case *ssa.DebugRef:
				if b == cur && i >= f.curIdx {
					continue // references after the current point
				}
				if id, ok := x.Expr.(*ast.Ident); ok && id.Name == name && !x.IsAddr {
					if _, isC := x.X.(*ssa.Const); isC {
						consider(TV{V: f.val(x.X), GoT: x.X.Type()}, b, i)
					} else if v, ok := f.vals[x.X]; ok {
						consider(TV{V: v, GoT: x.X.Type()}, b, i)
					}
				}
			}
		}
	}
	if !found {
		// a variable assigned exactly once whose uses do not dominate this point: its single value still does
		var only ssa.Value
		single := true
		for _, b := range f.fn.Blocks {
			for _, in := range b.Instrs {
				if x, ok := in.(*ssa.DebugRef); ok && !x.IsAddr {
					if id, ok := x.Expr.(*ast.Ident); ok && id.Name == name {
						if only == nil {
							only = x.X
						} else if only != x.X {
							single = false
						}
					}
				}
			}
		}
		if only != nil && single {
			if in, ok := only.(ssa.Instruction); ok && (in.Block() == cur || in.Block().Dominates(cur)) {
				if v, ok := f.vals[only]; ok {
					return TV{V: v, GoT: only.Type()}, true
				}
			}
		}
	}
	if !found {
		// captured variables of a closure
		for i, fv := range f.fn.FreeVars {
			if fv.Name() == name && i < len(f.freeVars) {
				v := f.freeVars[i]
				l := f.ptrLoc(v, fv.Type())
				return TV{V: termVal(f.load(st, l)), GoT: derefType(fv.Type())}, true
			}
		}
	}
	return best, found
}

func (f *fx) nameMapFor() map[string][]ssa.Value { return nil }

func (f *fx) specBool(c *Clause, env *Env) Term {
	tv := f.evalSpec(c.Expr, env)
	t := f.reify(tv.V)
	if t.Sort != "Bool" {
		unsupp("%s: clause %q is not boolean (%s)", c.Where, c.Src, t.Sort)
	}
	return t
}

func (f *fx) specTerm(c *Clause, env *Env) Term {
	return f.reify(f.evalSpec(c.Expr, env).V)
}

func tvTerm(t Term, gt types.Type) TV { return TV{V: termVal(t), GoT: gt} }

var (
	tInt    = types.Typ[types.Int]
	tBoolT  = types.Typ[types.Bool]
	tString = types.Typ[types.String]
)

func (f *fx) evalSpec(x ast.Expr, env *Env) TV {
	switch e := x.(type) {
	case *ast.ParenExpr:
		return f.evalSpec(e.X, env)
	case *ast.BasicLit:
		switch e.Kind {
		case token.INT:
			n, err := strconv.ParseInt(e.Value, 0, 64)
			if err != nil {
				unsupp("int literal %s", e.Value)
			}
			return tvTerm(intLit(n), tInt)
		case token.CHAR:
			r, _, _, err := strconv.UnquoteChar(e.Value[1:len(e.Value)-1], '\'')
			if err != nil {
				unsupp("char literal %s", e.Value)
			}
			return tvTerm(intLit(int64(r)), types.Typ[types.Rune])
		case token.STRING:
			s, err := strconv.Unquote(e.Value)
			if err != nil {
				unsupp("string literal %s", e.Value)
			}
			return tvTerm(f.strLit(s), tString)
		}
	case *ast.Ident:
		return f.specIdent(e.Name, env)
	case *ast.SelectorExpr:
		// package-qualified constant?
		if id, ok := e.X.(*ast.Ident); ok && id.Name == "caller" && env.caller != nil {
			if v, ok := env.caller[e.Sel.Name]; ok {
				return v
			}
			if v, ok := env.f.lookupLocal(e.Sel.Name, env.cur); ok {
				return v
			}
			unsupp("caller.%s is not a parameter or local of the calling function", e.Sel.Name)
		}
		if id, ok := e.X.(*ast.Ident); ok {
			if _, isVar := f.tryIdent(id.Name, env); !isVar {
				if pkg := f.e.importedPkg(id.Name); pkg != nil {
					return f.pkgObject(pkg, e.Sel.Name, env)
				}
			}
		}
		base := f.evalSpec(e.X, env)
		return f.selectField(base, e.Sel.Name, env)
	case *ast.StarExpr:
		base := f.evalSpec(e.X, env)
		l := f.ptrLoc(base.V, base.GoT)
		return tvTerm(f.load(env.cur, l), derefType(base.GoT))
	case *ast.UnaryExpr:
		if e.Op == token.AND {
			// &x.f: the address of a field (same term the code computes for it)
			if se, ok := e.X.(*ast.SelectorExpr); ok {
				base := f.evalSpec(se.X, env)
				if pt := derefType(base.GoT); pt != nil {
					if st, ok := pt.Underlying().(*types.Struct); ok {
						for i := 0; i < st.NumFields(); i++ {
							if st.Field(i).Name() == se.Sel.Name {
								l := f.ptrLoc(base.V, base.GoT).extend(PathStep{Field: i}, st.Field(i).Type())
								return tvTerm(f.reify(locVal(l)), types.NewPointer(st.Field(i).Type()))
							}
						}
					}
				}
			}
			unsupp("spec: & is only supported on pointer.field")
		}
		v := f.evalSpec(e.X, env)
		switch e.Op {
		case token.NOT:
			return tvTerm(not(f.reify(v.V)), tBoolT)
		case token.SUB:
			return tvTerm(T("Int", "(- %s)", f.reify(v.V).S), v.GoT)
		}
	case *ast.BinaryExpr:
		return f.specBinary(e, env)
	case *ast.IndexExpr:
		base := f.evalSpec(e.X, env)
		idx := f.evalSpec(e.Index, env)
		return f.specIndex(base, idx, env)
	case *ast.SliceExpr:
		base := f.evalSpec(e.X, env)
		bt := f.reify(base.V)
		lo := intLit(0)
		if e.Low != nil {
			lo = f.reify(f.evalSpec(e.Low, env).V)
		}
		if bt.Sort == "Str" {
			hi := T("Int", "(slen %s)", bt.S)
			if e.High != nil {
				hi = f.reify(f.evalSpec(e.High, env).V)
			}
			return tvTerm(T("Str", "(substr %s %s %s)", bt.S, lo.S, hi.S), base.GoT)
		}
		if bt.Sort == "Slice" {
			hi := T("Int", "(sl_len %s)", bt.S)
			if e.High != nil {
				hi = f.reify(f.evalSpec(e.High, env).V)
			}
			return tvTerm(T("Slice", "(mk_slice (sl_ref %s) (+ (sl_off %s) %s) (- %s %s) (- (sl_cap %s) %s))", bt.S, bt.S, lo.S, hi.S, lo.S, bt.S, lo.S), base.GoT)
		}
	case *ast.CallExpr:
		return f.specCall(e, env)
	case *ast.CompositeLit:
		gt := f.e.typeOfExpr(e.Type)
		if gt == nil {
			unsupp("composite literal of unknown type %s", exprString(e.Type))
		}
		srt := f.e.sorts.sortOf(gt)
		info := f.e.sorts.structInfo[srt]
		if info == nil || len(e.Elts) != len(info.Fields) {
			unsupp("composite literal %s needs all %d fields positionally", exprString(e.Type), len(info.Fields))
		}
		var parts []Term
		for i, el := range e.Elts {
			t := f.reify(f.evalSpec(el, env).V)
			if t.Sort != info.FSorts[i] {
				unsupp("composite literal %s: field %d has sort %s, want %s", exprString(e.Type), i, t.Sort, info.FSorts[i])
			}
			parts = append(parts, t)
		}
		return tvTerm(app(srt, "mk_"+srt, parts...), gt)
	}
	unsupp("spec expression %T not supported", x)
	return TV{}
}

func (f *fx) tryIdent(name string, env *Env) (TV, bool) {
	if env.bound != nil {
		if v, ok := env.bound[name]; ok {
			return v, true
		}
	}
	if env.inOld {
		// in the pre-state only parameters exist (captured copies of them are not initialised yet)
		if v, ok := env.f.top.topEnv.vars[name]; ok && (env.callee == nil || !env.callee[name]) {
			if _, isFV := v.GoT.(*types.Pointer); !isFV || env.f.top.fn.Parent() == nil {
				return v, true
			}
		}
	}
	// captured variables of a closure are referred to by name: their current value
	if env.f != nil && (env.callee == nil || !env.callee[name]) {
		for i, fv := range env.f.fn.FreeVars {
			if fv.Name() == name && i < len(env.f.freeVars) {
				l := f.ptrLoc(env.f.freeVars[i], fv.Type())
				return TV{V: termVal(f.load(env.cur, l)), GoT: derefType(fv.Type())}, true
			}
		}
	}
	if env.callee != nil && env.callee[name] {
		if v, ok := env.vars[name]; ok {
			return v, true
		}
	}
	if env.atLoop {
		// inside the body the current value of a (possibly reassigned) parameter or local wins
		if v, ok := env.f.lookupLocal(name, env.cur); ok {
			return v, true
		}
	}
	if v, ok := env.vars[name]; ok {
		return v, true
	}
	if env.localsFallback && !env.inOld && env.f != nil {
		if v, ok := env.f.lookupLocal(name, env.cur); ok {
			return v, true
		}
	}
	return TV{}, false
}

func (f *fx) specIdent(name string, env *Env) TV {
	switch name {
	case "true":
		return tvTerm(tTrue, tBoolT)
	case "false":
		return tvTerm(tFalse, tBoolT)
	case "nil":
		return TV{V: termVal(Term{"0", "Int"}), GoT: types.Typ[types.UntypedNil]}
	}
	if v, ok := f.tryIdent(name, env); ok {
		return v
	}
	// ghost variable
	if g, ok := f.e.specs.Ghosts[name]; ok {
		k := "X:" + name
		f.regKey(k, f.e.specSort(g.Type))
		return tvTerm(f.get(env.cur, k), f.e.lookupType(g.Type))
	}
	// package-level object of jet (or of the package of the function)
	if tv, ok := f.pkgObjectOK(f.e.jetTypes, name, env); ok {
		return tv
	}
	if f.top.fn.Pkg != nil && f.top.fn.Pkg.Pkg != f.e.jetTypes {
		if tv, ok := f.pkgObjectOK(f.top.fn.Pkg.Pkg, name, env); ok {
			return tv
		}
	}
	unsupp("spec identifier %q is not defined (function %s)", name, fnKey(f.top.fn))
	return TV{}
}

func (f *fx) pkgObject(pkg *types.Package, name string, env *Env) TV {
	tv, ok := f.pkgObjectOK(pkg, name, env)
	if !ok {
		unsupp("spec: %s.%s not found", pkg.Name(), name)
	}
	return tv
}

func (f *fx) pkgObjectOK(pkg *types.Package, name string, env *Env) (TV, bool) {
	obj := pkg.Scope().Lookup(name)
	if obj == nil {
		return TV{}, false
	}
	switch o := obj.(type) {
	case *types.Const:
		switch o.Val().Kind() {
		case constant.Int:
			n, _ := constant.Int64Val(o.Val())
			return tvTerm(intLit(n), o.Type()), true
		case constant.Bool:
			if constant.BoolVal(o.Val()) {
				return tvTerm(tTrue, o.Type()), true
			}
			return tvTerm(tFalse, o.Type()), true
		case constant.String:
			return tvTerm(f.strLit(constant.StringVal(o.Val())), o.Type()), true
		}
	case *types.Func:
		if sp := f.e.prog.Package(pkg); sp != nil {
			if fn := sp.Func(name); fn != nil {
				return TV{V: Val{Kind: vFn, Fn: &FnVal{Fn: fn, ID: f.e.fnID(fn)}}, GoT: o.Type()}, true
			}
		}
		return tvTerm(f.e.fnIDByName(pkg.Name()+"."+name), o.Type()), true
	case *types.Var:
		key := "G:" + mangle(pkg.Name()+"."+name)
		f.regKey(key, f.e.sorts.sortOf(o.Type()))
		return tvTerm(f.get(env.cur, key), o.Type()), true
	}
	return TV{}, false
}

// selectField handles x.f on pointers and struct values, including promoted fields.
func (f *fx) selectField(base TV, name string, env *Env) TV {
	if base.GoT == nil {
		unsupp("field %s of untyped spec value", name)
	}
	obj, idx, _ := types.LookupFieldOrMethod(base.GoT, true, f.e.jetTypes, name)
	if obj == nil {
		// try the package of the type
		if n, ok := derefOrSelf(base.GoT).(*types.Named); ok && n.Obj().Pkg() != nil {
			obj, idx, _ = types.LookupFieldOrMethod(base.GoT, true, n.Obj().Pkg(), name)
		}
	}
	if _, ok := obj.(*types.Var); !ok {
		unsupp("spec: no field %s in %s", name, base.GoT)
	}
	cur := base
	for _, i := range idx {
		cur = f.fieldStep(cur, i, env)
	}
	return cur
}

func derefOrSelf(t types.Type) types.Type {
	if p := derefType(t); p != nil {
		return p
	}
	return t
}

func (f *fx) fieldStep(base TV, i int, env *Env) TV {
	t := base.GoT
	if p := derefType(t); p != nil {
		st := p.Underlying().(*types.Struct)
		l := f.ptrLoc(base.V, t)
		fl := l.extend(PathStep{Field: i}, st.Field(i).Type())
		v := f.load(env.cur, fl)
		if env.bound == nil || len(env.bound) == 0 {
			// typing facts of the loaded value (not under quantifiers: bound variables must not escape)
			f.assumeTyped(env.cur, v, st.Field(i).Type())
		}
		return tvTerm(v, st.Field(i).Type())
	}
	st, ok := t.Underlying().(*types.Struct)
	if !ok {
		unsupp("field step on %s", t)
	}
	if base.V.Kind == vLoc {
		fl := base.V.Loc.extend(PathStep{Field: i}, st.Field(i).Type())
		return tvTerm(f.load(env.cur, fl), st.Field(i).Type())
	}
	info := f.e.sorts.structInfo[f.e.sorts.sortOf(t)]
	if info == nil {
		if bt := f.reify(base.V); bt.S != "" {
			return tvTerm(f.opaqueField(bt, t, i), st.Field(i).Type())
		}
		unsupp("field of opaque struct %s", t)
	}
	return tvTerm(app(info.FSorts[i], info.Fields[i], f.reify(base.V)), st.Field(i).Type())
}

func (f *fx) specIndex(base, idx TV, env *Env) TV {
	bt := f.reify(base.V)
	it := f.reify(idx.V)
	switch bt.Sort {
	case "Str":
		return tvTerm(T("Int", "(sat %s %s)", bt.S, it.S), types.Typ[types.Byte])
	case "Slice":
		st := base.GoT.Underlying().(*types.Slice)
		k := f.backingKey(st.Elem())
		return tvTerm(sel(sel(f.get(env.cur, k), T("Int", "(sl_ref %s)", bt.S)), T("Int", "(idx_add (sl_off %s) %s)", bt.S, it.S)), st.Elem())
	}
	if base.GoT != nil {
		switch u := base.GoT.Underlying().(type) {
		case *types.Map:
			vk, dk := f.mapKeys(u)
			inDom := and(T("Bool", "(not (= %s 0))", bt.S), sel(sel(f.get(env.cur, dk), bt), it))
			v := sel(sel(f.get(env.cur, vk), bt), it)
			return tvTerm(ite(inDom, v, f.e.sorts.zero(v.Sort)), u.Elem())
		case *types.Array:
			return tvTerm(sel(bt, it), u.Elem())
		}
	}
	if strings.HasPrefix(bt.Sort, "(Array ") {
		return tvTerm(sel(bt, it), nil)
	}
	unsupp("spec index on %s", bt.Sort)
	return TV{}
}

func (f *fx) specBinary(e *ast.BinaryExpr, env *Env) TV {
	switch e.Op {
	case token.LAND:
		a := f.reify(f.evalSpec(e.X, env).V)
		b := f.reify(f.evalSpec(e.Y, env).V)
		return tvTerm(and(a, b), tBoolT)
	case token.LOR:
		a := f.reify(f.evalSpec(e.X, env).V)
		b := f.reify(f.evalSpec(e.Y, env).V)
		return tvTerm(or(a, b), tBoolT)
	}
	av, bv := f.evalSpec(e.X, env), f.evalSpec(e.Y, env)
	a, b := f.reify(av.V), f.reify(bv.V)
	// nil literal adapts to the other side's sort
	if av.GoT == types.Typ[types.UntypedNil] && b.Sort != "Int" {
		a = f.e.sorts.zero(b.Sort)
	}
	if bv.GoT == types.Typ[types.UntypedNil] && a.Sort != "Int" {
		b = f.e.sorts.zero(a.Sort)
	}
	if a.Sort != b.Sort {
		unsupp("spec: %s %s %s: sorts %s and %s differ", exprString(e.X), e.Op, exprString(e.Y), a.Sort, b.Sort)
	}
	if a.Sort == "Float" && e.Op != token.EQL && e.Op != token.NEQ {
		// floating-point operators are the same uninterpreted functions the code's own operators become
		name := map[token.Token]string{token.ADD: "fadd", token.SUB: "fsub", token.MUL: "fmul", token.QUO: "fdiv", token.LSS: "flt", token.LEQ: "fle", token.GTR: "fgt", token.GEQ: "fge"}[e.Op]
		if name == "" {
			unsupp("spec operator %s on floats", e.Op)
		}
		rs, rt := "Float", av.GoT
		if e.Op == token.LSS || e.Op == token.LEQ || e.Op == token.GTR || e.Op == token.GEQ {
			rs, rt = "Bool", tBoolT
		}
		f.sc.declareOnce(name, fmt.Sprintf("(declare-fun %s (Float Float) %s)", name, rs))
		return tvTerm(app(rs, name, a, b), rt)
	}
	switch e.Op {
	case token.EQL:
		return tvTerm(f.specEq(a, b), tBoolT)
	case token.NEQ:
		return tvTerm(not(f.specEq(a, b)), tBoolT)
	case token.LSS:
		return tvTerm(T("Bool", "(< %s %s)", a.S, b.S), tBoolT)
	case token.LEQ:
		return tvTerm(T("Bool", "(<= %s %s)", a.S, b.S), tBoolT)
	case token.GTR:
		return tvTerm(T("Bool", "(> %s %s)", a.S, b.S), tBoolT)
	case token.GEQ:
		return tvTerm(T("Bool", "(>= %s %s)", a.S, b.S), tBoolT)
	case token.ADD:
		if a.Sort == "Str" {
			return tvTerm(app("Str", "sconcat", a, b), av.GoT)
		}
		return tvTerm(T("Int", "(+ %s %s)", a.S, b.S), av.GoT)
	case token.SUB:
		return tvTerm(T("Int", "(- %s %s)", a.S, b.S), av.GoT)
	case token.MUL:
		return tvTerm(mulTerm(f.sc, a, b), av.GoT)
	case token.QUO:
		declareGoDiv(f.sc)
		return tvTerm(app("Int", "godiv", a, b), av.GoT)
	case token.REM:
		declareGoDiv(f.sc)
		return tvTerm(app("Int", "gorem", a, b), av.GoT)
	}
	unsupp("spec operator %s", e.Op)
	return TV{}
}

// specEq: equality in specifications. For strings it is extensional when one side is a short literal.
func (f *fx) specEq(a, b Term) Term {
	if a.Sort == "Str" {
		for _, p := range [][2]Term{{a, b}, {b, a}} {
			if s, ok := f.top.litStrs[p[0].S]; ok || p[0].S == "str_empty" {
				if p[0].S == "str_empty" {
					s = ""
				}
				if len(s) <= 16 {
					parts := []Term{T("Bool", "(= (slen %s) %d)", p[1].S, len(s))}
					for i := 0; i < len(s); i++ {
						parts = append(parts, T("Bool", "(= (sat %s %d) %d)", p[1].S, i, s[i]))
					}
					return and(parts...)
				}
			}
		}
	}
	return eq(a, b)
}

func exprString(e ast.Expr) string {
	return types.ExprString(e)
}

func (f *fx) specCall(e *ast.CallExpr, env *Env) TV {
	name := ""
	switch fn := e.Fun.(type) {
	case *ast.Ident:
		name = fn.Name
	case *ast.SelectorExpr:
		if id, ok := fn.X.(*ast.Ident); ok {
			name = id.Name + "." + fn.Sel.Name
		}
	case *ast.StarExpr, *ast.ParenExpr, *ast.ArrayType, *ast.MapType:
		// type conversion like (*T)(x): identity
		if len(e.Args) == 1 {
			return f.evalSpec(e.Args[0], env)
		}
	}
	arg := func(i int) TV { return f.evalSpec(e.Args[i], env) }
	argT := func(i int) Term { return f.reify(arg(i).V) }
	switch name {
	case "old":
		oenv := *env
		oenv.cur = env.old
		oenv.atLoop = false
		oenv.inOld = true
		return f.evalSpec(e.Args[0], &oenv)
	case "imp":
		return tvTerm(implies(argT(0), argT(1)), tBoolT)
	case "iff":
		return tvTerm(eq(argT(0), argT(1)), tBoolT)
	case "ite":
		c, a, b := argT(0), arg(1), arg(2)
		return tvTerm(ite(c, f.reify(a.V), f.reify(b.V)), a.GoT)
	case "forall", "exists":
		// forall(i, lo, hi, body)  or forall(x Type, body) via forallT
		if len(e.Args) != 4 {
			unsupp("%s(i, lo, hi, body)", name)
		}
		id, ok := e.Args[0].(*ast.Ident)
		if !ok {
			unsupp("%s: first argument must be an identifier", name)
		}
		lo, hi := argT(1), argT(2)
		cenv := env.child()
		bv := Term{fmt.Sprintf("%s$%d", id.Name, f.ordinal("$bound")), "Int"}
		cenv.bound[id.Name] = tvTerm(bv, tInt)
		body := f.reify(f.evalSpec(e.Args[3], cenv).V)
		rng := T("Bool", "(and (<= %s %s) (< %s %s))", lo.S, bv.S, bv.S, hi.S)
		if name == "forall" {
			return tvTerm(T("Bool", "(forall ((%s Int)) %s)", bv.S, implies(rng, body).S), tBoolT)
		}
		return tvTerm(T("Bool", "(exists ((%s Int)) %s)", bv.S, and(rng, body).S), tBoolT)
	case "forallT", "existsT":
		// forallT(x, "Type", body)
		id, ok := e.Args[0].(*ast.Ident)
		tl, ok2 := e.Args[1].(*ast.BasicLit)
		if !ok || !ok2 {
			unsupp("%s(x, \"Type\", body)", name)
		}
		tn, _ := strconv.Unquote(tl.Value)
		gt := f.e.lookupType(tn)
		srt := f.e.specSort(tn)
		cenv := env.child()
		bv := Term{fmt.Sprintf("%s$%d", id.Name, f.ordinal("$bound")), srt}
		cenv.bound[id.Name] = tvTerm(bv, gt)
		body := f.reify(f.evalSpec(e.Args[2], cenv).V)
		q := "forall"
		if name == "existsT" {
			q = "exists"
		}
		return tvTerm(T("Bool", "(%s ((%s %s)) %s)", q, bv.S, srt, body.S), tBoolT)
	case "len":
		a := arg(0)
		t := f.reify(a.V)
		switch t.Sort {
		case "Str":
			return tvTerm(T("Int", "(slen %s)", t.S), tInt)
		case "Slice":
			return tvTerm(T("Int", "(sl_len %s)", t.S), tInt)
		}
		if a.GoT != nil {
			if at, ok := a.GoT.Underlying().(*types.Array); ok {
				return tvTerm(intLit(at.Len()), tInt)
			}
			if mt, ok := a.GoT.Underlying().(*types.Map); ok {
				return tvTerm(f.mapLen(env.cur, t, mt), tInt)
			}
		}
		unsupp("spec len of %s", t.Sort)
	case "cap":
		t := argT(0)
		return tvTerm(T("Int", "(sl_cap %s)", t.S), tInt)
	case "alloc":
		return tvTerm(f.get(env.cur, "E:alloc"), tInt)
	case "fresh":
		// fresh(p): allocated during this call
		t := refOf(argT(0))
		return tvTerm(T("Bool", "(> %s %s)", t.S, f.get(env.old, "E:alloc").S), tBoolT)
	case "allocated":
		t := refOf(argT(0))
		return tvTerm(T("Bool", "(and (< 0 %s) (<= %s %s))", t.S, t.S, f.get(env.cur, "E:alloc").S), tBoolT)
	case "has":
		// has(m, k): key k in map m
		m, k := arg(0), argT(1)
		mt, ok := m.GoT.Underlying().(*types.Map)
		if !ok {
			unsupp("has() on non-map")
		}
		_, dk := f.mapKeys(mt)
		mr := f.reify(m.V)
		return tvTerm(and(T("Bool", "(not (= %s 0))", mr.S), sel(sel(f.get(env.cur, dk), mr), k)), tBoolT)
	case "mapdom", "mapvals":
		m := arg(0)
		mt, ok := m.GoT.Underlying().(*types.Map)
		if !ok {
			unsupp("%s() on non-map", name)
		}
		vk, dk := f.mapKeys(mt)
		k := dk
		if name == "mapvals" {
			k = vk
		}
		return tvTerm(sel(f.get(env.cur, k), f.reify(m.V)), nil)
	case "sent":
		ch := arg(0)
		ct, ok := ch.GoT.Underlying().(*types.Chan)
		if !ok {
			unsupp("sent() of non-channel")
		}
		return tvTerm(sel(f.get(env.cur, f.sentKey(ct.Elem())), f.reify(ch.V)), nil)
	case "snoc", "trlen", "trlast", "trinit":
		tr := argT(0)
		if !strings.HasPrefix(tr.Sort, "Tr_") {
			unsupp("%s() of non-trace %s", name, tr.Sort)
		}
		n := strings.TrimPrefix(tr.Sort, "Tr_")
		switch name {
		case "snoc":
			return tvTerm(app(tr.Sort, "snoc_"+n, tr, argT(1)), nil)
		case "trlen":
			return tvTerm(app("Int", "trlen_"+n, tr), tInt)
		case "trinit":
			return tvTerm(app(tr.Sort, "trinit_"+n, tr), nil)
		default:
			es := f.e.traceElemSort(tr.Sort)
			return tvTerm(app(es, "trlast_"+n, tr), f.e.traceElemType[tr.Sort])
		}
	case "store":
		// store(arr, k, v): functional update of an array-sorted spec value
		a, k, v := argT(0), argT(1), argT(2)
		return tvTerm(sto(a, k, v), nil)
	case "typeof":
		t := argT(0)
		return tvTerm(T("Int", "(itag %s)", t.S), tInt)
	case "istype":
		// istype(x, "T")
		t := argT(0)
		tl, ok := e.Args[1].(*ast.BasicLit)
		if !ok {
			unsupp("istype(x, \"T\")")
		}
		tn, _ := strconv.Unquote(tl.Value)
		gt := f.e.lookupType(tn)
		if gt == nil {
			unsupp("istype: unknown type %s", tn)
		}
		return tvTerm(T("Bool", "(= (itag %s) %d)", t.S, f.e.sorts.typeTag(gt)), tBoolT)
	case "as":
		// as(x, "T"): payload of interface x viewed as T
		a := arg(0)
		tl, ok := e.Args[1].(*ast.BasicLit)
		if !ok {
			unsupp("as(x, \"T\")")
		}
		tn, _ := strconv.Unquote(tl.Value)
		gt := f.e.lookupType(tn)
		if gt == nil {
			unsupp("as: unknown type %s", tn)
		}
		return tvTerm(f.unboxAs(f.reify(a.V), gt), gt)
	case "iface":
		// iface(x, "T"): the interface value holding x with dynamic type T
		a := arg(0)
		tl, ok := e.Args[1].(*ast.BasicLit)
		if !ok {
			unsupp("iface(x, \"T\")")
		}
		tn, _ := strconv.Unquote(tl.Value)
		gt := f.e.lookupType(tn)
		if gt == nil {
			unsupp("iface: unknown type %s", tn)
		}
		return tvTerm(f.makeIface(a.V, gt), nil)
	case "prev":
		if env.prevLoop == nil {
			unsupp("prev() outside of a loop step clause")
		}
		li := env.prevLoop
		saved := map[*ssa.Phi]Val{}
		for phi, v := range li.headPhis {
			saved[phi] = f.vals[phi]
			f.vals[phi] = v
		}
		penv := *env
		penv.cur = li.headState
		penv.prevLoop = nil
		saveBlock, saveIdx := f.curBlock, f.curIdx
		f.curBlock, f.curIdx = li.head, 1<<30
		r := f.evalSpec(e.Args[0], &penv)
		f.curBlock, f.curIdx = saveBlock, saveIdx
		for phi, v := range saved {
			f.vals[phi] = v
		}
		return r
	case "visits":
		// visits("callee key", n): how often the n-th static call site of the callee (by source position) was executed
		tl, ok := e.Args[0].(*ast.BasicLit)
		il, ok2 := e.Args[1].(*ast.BasicLit)
		if !ok || !ok2 {
			unsupp("visits(\"key\", n)")
		}
		k, _ := strconv.Unquote(tl.Value)
		key := fmt.Sprintf("E:visits:%s#%s", k, il.Value)
		f.regKey(key, "Int")
		return tvTerm(f.get(env.cur, key), tInt)
	case "ncalls":
		// ncalls("callee key"): how many times this function body has called the callee so far
		tl, ok := e.Args[0].(*ast.BasicLit)
		if !ok {
			unsupp("ncalls(\"key\")")
		}
		k, _ := strconv.Unquote(tl.Value)
		key := "E:ncalls:" + k
		f.regKey(key, "Int")
		return tvTerm(f.get(env.cur, key), tInt)
	case "lastret":
		// lastret("callee key", i): i-th result of the most recent call of the callee in this function body
		tl, ok := e.Args[0].(*ast.BasicLit)
		il, ok2 := e.Args[1].(*ast.BasicLit)
		if !ok || !ok2 {
			unsupp("lastret(\"key\", i)")
		}
		k, _ := strconv.Unquote(tl.Value)
		key := fmt.Sprintf("E:ret:%s:%s", k, il.Value)
		var gt types.Type
		if fn := f.e.fnByKey[k]; fn != nil {
			n, _ := strconv.Atoi(il.Value)
			if n < fn.Signature.Results().Len() {
				gt = fn.Signature.Results().At(n).Type()
			}
		}
		if gt == nil {
			// an interface method or library function: take the result type from a call of it in this function
			n, _ := strconv.Atoi(il.Value)
			gt = f.calleeResultType(k, n)
		}
		if _, ok := f.e.keySorts[key]; !ok {
			// a program point that is processed before the first call of the callee (no call yet on any path to it):
			// the value is unconstrained there
			if gt == nil {
				unsupp("lastret: no call of %s was seen before this point", k)
			}
			f.regKey(key, f.e.sorts.sortOf(gt))
		}
		return tvTerm(f.get(env.cur, key), gt)
	case "siteret":
		// siteret("callee key", site, i): i-th result of the most recent call made at static call site number `site`
		tl, ok := e.Args[0].(*ast.BasicLit)
		sl, ok1 := e.Args[1].(*ast.BasicLit)
		il, ok2 := e.Args[2].(*ast.BasicLit)
		if !ok || !ok1 || !ok2 {
			unsupp("siteret(\"key\", site, i)")
		}
		k, _ := strconv.Unquote(tl.Value)
		key := fmt.Sprintf("E:sret:%s#%s:%s", k, sl.Value, il.Value)
		var gt types.Type
		if fn := f.e.fnByKey[k]; fn != nil {
			n, _ := strconv.Atoi(il.Value)
			if n < fn.Signature.Results().Len() {
				gt = fn.Signature.Results().At(n).Type()
			}
		}
		if gt == nil {
			// an interface method or library function: take the result type from a call of it in this function
			n, _ := strconv.Atoi(il.Value)
			gt = f.calleeResultType(k, n)
		}
		if _, ok := f.e.keySorts[key]; !ok {
			if gt == nil {
				unsupp("siteret: no call of %s at site %s was seen before this point", k, sl.Value)
			}
			f.regKey(key, f.e.sorts.sortOf(gt))
		}
		return tvTerm(f.get(env.cur, key), gt)
	case "recovered":
		// recovered(): this return is reached after a deferred function recovered a panic
		f.regKey("E:recovered", "Bool")
		if t, ok := env.cur.m["E:recovered"]; ok {
			return tvTerm(t, tBoolT)
		}
		return tvTerm(tFalse, tBoolT)
	case "panicking":
		f.regKey("E:panicking", "Bool")
		if t, ok := env.cur.m["E:panicking"]; ok {
			return tvTerm(t, tBoolT)
		}
		return tvTerm(tFalse, tBoolT)
	case "gaddr":
		// gaddr(name): address of a package-level variable
		id, ok := e.Args[0].(*ast.Ident)
		if !ok {
			unsupp("gaddr(name)")
		}
		return tvTerm(f.globalAddr("G:"+mangle("jet."+id.Name)), nil)
	case "zero":
		tl, ok := e.Args[0].(*ast.BasicLit)
		if !ok {
			unsupp("zero(\"T\")")
		}
		tn, _ := strconv.Unquote(tl.Value)
		return tvTerm(f.e.sorts.zero(f.e.specSort(tn)), f.e.lookupType(tn))
	case "refof":
		// refof(x): the payload reference of an interface value
		t := argT(0)
		if t.Sort == "Iface" {
			return tvTerm(T("Int", "(ival %s)", t.S), nil)
		}
		return tvTerm(refOf(t), nil)
	case "isptr":
		// isptr(x): the dynamic type of interface value x is a pointer type
		t := argT(0)
			return tvTerm(T("Bool", "(is_ptr_tag (itag %s))", t.S), tBoolT)
	case "implementsI":
		// implementsI(x, "I"): the dynamic type of interface value x implements interface I
		t := argT(0)
		tl, ok := e.Args[1].(*ast.BasicLit)
		if !ok {
			unsupp("implementsI(x, \"I\")")
		}
		tn, _ := strconv.Unquote(tl.Value)
		gt := f.e.lookupType(tn)
		if gt == nil {
			unsupp("implementsI: unknown type %s", tn)
		}
		return tvTerm(T("Bool", "(and (not (= (itag %s) 0)) (implements (itag %s) %d))", t.S, t.S, f.e.sorts.ifaceID(gt)), tBoolT)
	case "isnil":
		t := argT(0)
		return tvTerm(eq(t, f.e.sorts.zero(t.Sort)), tBoolT)
	case "deferred":
		// deferred(k): the k-th defer statement of the function is pending
		k, ok := e.Args[0].(*ast.BasicLit)
		if !ok {
			unsupp("deferred(k)")
		}
		n, _ := strconv.Atoi(k.Value)
		d := env.f.nthDefer(n)
		return tvTerm(f.get(env.cur, env.f.deferKey(d)), tBoolT)
	case "fnid":
		// fnid(name): identity of a package-level function
		id, ok := e.Args[0].(*ast.Ident)
		if !ok {
			unsupp("fnid(name)")
		}
		return tvTerm(f.e.fnIDByName(id.Name), nil)
	case "int", "Pos", "int64", "rune", "byte", "uint64", "itemType", "NodeType", "uint8", "int32", "uint":
		return arg(0)
	case "string":
		// string(b): the conversion function the code's own []byte->string conversions become
		x := arg(0)
		xt := f.reify(x.V)
		if xt.Sort == "Str" {
			return tvTerm(xt, types.Typ[types.String])
		}
		if xt.Sort != "Slice" {
			unsupp("string(%s)", xt.Sort)
		}
		f.sc.declareOnce("conv_Slice_to_Str", "(declare-fun conv_Slice_to_Str (Slice) Str)")
		return tvTerm(app("Str", "conv_Slice_to_Str", xt), types.Typ[types.String])
	case "float64":
		// float64(x): the conversion function the code's own int->float conversions become
		x := arg(0)
		xt := f.reify(x.V)
		if xt.Sort == "Float" {
			return tvTerm(xt, types.Typ[types.Float64])
		}
		if xt.Sort != "Int" {
			unsupp("float64(%s)", xt.Sort)
		}
		f.sc.declareOnce("conv_Int_to_Float", "(declare-fun conv_Int_to_Float (Int) Float)")
		return tvTerm(app("Float", "conv_Int_to_Float", xt), types.Typ[types.Float64])
	}
	// predicate?
	if p, ok := f.e.specs.Preds[name]; ok {
		if len(e.Args) != len(p.Params) {
			unsupp("predicate %s takes %d arguments", name, len(p.Params))
		}
		cenv := env.child()
		cenv.vars = map[string]TV{}
		cenv.atLoop = false
		for i, pn := range p.Params {
			a := arg(i)
			if a.GoT == nil || a.GoT == types.Typ[types.UntypedNil] {
				a.GoT = f.e.lookupType(p.PTypes[i])
			}
			cenv.vars[pn] = a
		}
		cenv.bound = env.bound
		return f.evalSpec(p.Body, cenv)
	}
	// uninterpreted function?
	if u, ok := f.e.specs.UFuncs[name]; ok {
		if len(e.Args) != len(u.PTypes) {
			unsupp("ufunc %s takes %d arguments", name, len(u.PTypes))
		}
		var args []Term
		for i := range e.Args {
			a := arg(i)
			t := f.reify(a.V)
			want := f.e.specSort(u.PTypes[i])
			if a.GoT == types.Typ[types.UntypedNil] && want != "Int" {
				t = f.e.sorts.zero(want)
			}
			if t.Sort != want {
				unsupp("ufunc %s: argument %d has sort %s, want %s", name, i, t.Sort, want)
			}
			args = append(args, t)
		}
		return tvTerm(app(f.e.specSort(u.RType), "uf_"+name, args...), f.e.lookupType(u.RType))
	}
	unsupp("spec function %q is not defined", name)
	return TV{}
}

func (f *fx) nthDefer(n int) *ssa.Defer {
	k := 0
	for _, b := range f.fn.Blocks {
		for _, in := range b.Instrs {
			if d, ok := in.(*ssa.Defer); ok {
				if k == n {
					return d
				}
				k++
			}
		}
	}
	unsupp("deferred(%d): function %s has only %d defers", n, fnKey(f.fn), k)
	return nil
}

// ---------------------------------------------------------------------------
// static typing of spec expressions (for modifies entries of callees inside loops)

type typeEnv map[string]types.Type

func (f *fx) typeEnvForCall(contract *Contract, c *ssa.CallCommon) typeEnv {
	env := typeEnv{}
	sig := c.Signature()
	hasRecv := false
	var ptypes []types.Type
	if c.IsInvoke() {
		hasRecv = true
		ptypes = append(ptypes, c.Value.Type())
	} else if sf := c.StaticCallee(); sf != nil {
		sig = sf.Signature
		if sig.Recv() != nil {
			hasRecv = true
			ptypes = append(ptypes, sig.Recv().Type())
		}
	}
	for i := 0; i < sig.Params().Len(); i++ {
		ptypes = append(ptypes, sig.Params().At(i).Type())
	}
	names := contractParamNames(contract, sig, hasRecv)
	for i, n := range names {
		if i < len(ptypes) {
			env[n] = ptypes[i]
		}
	}
	return env
}

func (e *Engine) staticType(x ast.Expr, env typeEnv) types.Type {
	switch v := x.(type) {
	case *ast.ParenExpr:
		return e.staticType(v.X, env)
	case *ast.Ident:
		if t, ok := env[v.Name]; ok {
			return t
		}
		if obj := e.jetTypes.Scope().Lookup(v.Name); obj != nil {
			return obj.Type()
		}
	case *ast.SelectorExpr:
		bt := e.staticType(v.X, env)
		if bt == nil {
			break
		}
		obj, _, _ := types.LookupFieldOrMethod(bt, true, e.jetTypes, v.Sel.Name)
		if obj != nil {
			return obj.Type()
		}
	case *ast.StarExpr:
		if bt := e.staticType(v.X, env); bt != nil {
			return derefType(bt)
		}
	case *ast.CallExpr:
		if id, ok := v.Fun.(*ast.Ident); ok && id.Name == "old" {
			return e.staticType(v.Args[0], env)
		}
	}
	unsupp("cannot type spec expression %s statically", exprString(x))
	return nil
}

// calleeResultType: the type of the n-th result of the callee with that key, read off a call of it in the unit.
func (f *fx) calleeResultType(key string, n int) types.Type {
	var found types.Type
	var walk func(fn *ssa.Function)
	walk = func(fn *ssa.Function) {
		for _, b := range fn.Blocks {
			for _, in := range b.Instrs {
				if ci, ok := in.(ssa.CallInstruction); ok && found == nil && calleeKeyOf(ci.Common()) == key {
					if rs := ci.Common().Signature().Results(); n < rs.Len() {
						found = rs.At(n).Type()
					}
				}
			}
		}
		for _, a := range fn.AnonFuncs {
			walk(a)
		}
	}
	walk(f.top.fn)
	return found
}
