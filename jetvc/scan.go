package main

import (
	"fmt"
	"go/types"
	"sort"
	"strings"

	"golang.org/x/tools/go/ssa"
	"golang.org/x/tools/go/ssa/ssautil"
)

// ScanResult is the outcome of one package-wide syntactic frame condition.
type ScanResult struct {
	Name   string
	OK     bool
	Where  string
	Detail string
}

func allowedFn(key string, allow []string) bool {
	for _, a := range allow {
		if key == a || strings.HasPrefix(key, a+"$") {
			return true
		}
		if strings.HasSuffix(a, "*") && strings.HasPrefix(key, strings.TrimSuffix(a, "*")) {
			return true
		}
	}
	return false
}

// fieldOf returns "Type.field" for a FieldAddr.
func fieldOf(fa *ssa.FieldAddr) string {
	st := derefType(fa.X.Type())
	if st == nil {
		return ""
	}
	s, ok := st.Underlying().(*types.Struct)
	if !ok {
		return ""
	}
	return typeKeyString(st) + "." + s.Field(fa.Field).Name()
}

func (e *Engine) repoFunctions() []*ssa.Function {
	var fns []*ssa.Function
	for fn := range ssautil.AllFunctions(e.prog) {
		pkg := fn.Pkg
		if pkg == nil && fn.Parent() != nil {
			p := fn.Parent()
			for p.Parent() != nil {
				p = p.Parent()
			}
			pkg = p.Pkg
		}
		if pkg == nil || !strings.HasPrefix(pkg.Pkg.Path(), jetPath) {
			continue
		}
		if len(fn.Blocks) == 0 {
			continue
		}
		fns = append(fns, fn)
	}
	sort.Slice(fns, func(i, j int) bool { return fnKey(fns[i]) < fnKey(fns[j]) })
	return fns
}

func (e *Engine) runScans(prop string) []ScanResult {
	var out []ScanResult
	fns := e.repoFunctions()
	for _, fr := range e.specs.Frames {
		if prop != "" && !hasProp(fr.Props, prop) {
			continue
		}
		res := ScanResult{Name: "scan:" + fr.Kind + ":" + fr.Target, OK: true, Where: fr.Where}
		var offenders []string
		nsites := 0
		for _, fn := range fns {
			key := fnKey(fn)
			for _, b := range fn.Blocks {
				for _, in := range b.Instrs {
					hit := false
					switch fr.Kind {
					case "stores":
						if st, ok := in.(*ssa.Store); ok {
							if fa, ok := st.Addr.(*ssa.FieldAddr); ok && fieldOf(fa) == fr.Target {
								hit = true
							}
						}
						if mu, ok := in.(*ssa.MapUpdate); ok {
							// map stored in a field: m loaded from FieldAddr
							if u, ok := mu.Map.(*ssa.UnOp); ok {
								if fa, ok := u.X.(*ssa.FieldAddr); ok && fieldOf(fa)+"[]" == fr.Target {
									hit = true
								}
							}
						}
					case "loads":
						if u, ok := in.(*ssa.UnOp); ok {
							if fa, ok := u.X.(*ssa.FieldAddr); ok && fieldOf(fa) == fr.Target {
								hit = true
							}
						}
					case "calls":
						if ci, ok := in.(ssa.CallInstruction); ok {
							c := ci.Common()
							if sf := c.StaticCallee(); sf != nil && fnKey(sf) == fr.Target {
								hit = true
							}
							if c.IsInvoke() && "("+typeKeyString(c.Value.Type())+")."+c.Method.Name() == fr.Target {
								hit = true
							}
						}
					}
					if hit {
						nsites++
						if !allowedFn(key, fr.Allow) {
							p := e.fset.Position(in.Pos())
							offenders = append(offenders, fmt.Sprintf("%s (%s:%d)", key, shortFile(p.Filename), p.Line))
						}
					}
				}
			}
		}
		res.Detail = fmt.Sprintf("%s of %s allowed only in {%s}; %d sites found", fr.Kind, fr.Target, strings.Join(fr.Allow, ", "), nsites)
		if len(offenders) > 0 {
			res.OK = false
			res.Detail += "; offending: " + strings.Join(offenders, "; ")
		}
		if nsites == 0 {
			res.OK = false
			res.Detail += "; no site found at all (rule is vacuous: the target may have been renamed)"
		}
		out = append(out, res)
	}
	return out
}
