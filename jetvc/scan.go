package main

import (
	"fmt"
	"go/token"
	"go/types"
	"sort"
	"strings"

	"golang.org/x/tools/go/ssa"
	"golang.org/x/tools/go/ssa/ssautil"
)

// ScanResult is the outcome of one package-wide syntactic frame condition.
type ScanResult struct {
	Name   string
	OK     bool
	Where  string
	Detail string
}

func matchPattern(pat, name string) bool {
	switch {
	case pat == "*":
		return true
	case strings.HasPrefix(pat, "*") && strings.HasSuffix(pat, "*") && len(pat) > 1:
		return strings.Contains(name, strings.Trim(pat, "*"))
	case strings.HasPrefix(pat, "*"):
		return strings.HasSuffix(name, pat[1:])
	case strings.HasSuffix(pat, "*"):
		return strings.HasPrefix(name, pat[:len(pat)-1])
	}
	return pat == name
}

func allowedFn(key string, allow []string) bool {
	for _, a := range allow {
		if key == a || strings.HasPrefix(key, a+"$") {
			return true
		}
		if strings.HasSuffix(a, "*") && strings.HasPrefix(key, strings.TrimSuffix(a, "*")) {
			return true
		}
	}
	return false
}

// fieldOf returns "Type.field" for a FieldAddr.
func fieldOf(fa *ssa.FieldAddr) string {
	st := derefType(fa.X.Type())
	if st == nil {
		return ""
	}
	s, ok := st.Underlying().(*types.Struct)
	if !ok {
		return ""
	}
	return typeKeyString(st) + "." + s.Field(fa.Field).Name()
}

func (e *Engine) repoFunctions() []*ssa.Function {
	var fns []*ssa.Function
	for fn := range ssautil.AllFunctions(e.prog) {
		pkg := fn.Pkg
		if pkg == nil && fn.Parent() != nil {
			p := fn.Parent()
			for p.Parent() != nil {
				p = p.Parent()
			}
			pkg = p.Pkg
		}
		if pkg == nil || !strings.HasPrefix(pkg.Pkg.Path(), jetPath) {
			continue
		}
		if len(fn.Blocks) == 0 {
			continue
		}
		fns = append(fns, fn)
	}
	sort.Slice(fns, func(i, j int) bool { return fnKey(fns[i]) < fnKey(fns[j]) })
	return fns
}

func (e *Engine) runScans(prop string) []ScanResult {
	var out []ScanResult
	fns := e.repoFunctions()
	for _, fr := range e.specs.Frames {
		if prop != "" && !hasProp(fr.Props, prop) {
			continue
		}
		res := ScanResult{Name: "scan:" + fr.Kind + ":" + fr.Target, OK: true, Where: fr.Where}
		if fr.Kind == "acyclic" {
			// frame {props} acyclic F only-in -: F is not reachable from itself in the static call graph of the
			// repository (a sufficient condition for "the recursion through F terminates"; functions listed after
			// only-in are cut points whose recursion is argued separately, e.g. structural recursion on the tree)
			cyc := e.findCycle(fns, fr.Target, fr.Allow)
			res.Detail = fmt.Sprintf("%s must not be reachable from itself through static calls (cut points: %s)", fr.Target, strings.Join(fr.Allow, ", "))
			if cyc != "" {
				res.OK = false
				res.Detail += "; cycle: " + cyc
			}
			out = append(out, res)
			continue
		}
		var offenders []string
		nsites := 0
		for _, fn := range fns {
			key := fnKey(fn)
			for _, b := range fn.Blocks {
				for _, in := range b.Instrs {
					hit := false
					switch fr.Kind {
					case "stores":
						if st, ok := in.(*ssa.Store); ok {
							if fa, ok := st.Addr.(*ssa.FieldAddr); ok && fieldOf(fa) == fr.Target {
								hit = true
							}
						}
						if mu, ok := in.(*ssa.MapUpdate); ok {
							// map stored in a field: m loaded from FieldAddr
							if u, ok := mu.Map.(*ssa.UnOp); ok {
								if fa, ok := u.X.(*ssa.FieldAddr); ok && fieldOf(fa)+"[]" == fr.Target {
									hit = true
								}
							}
						}
					case "stores-any":
						// any field of a struct type whose name matches the target pattern (leading/trailing *)
						var fa *ssa.FieldAddr
						if st, ok := in.(*ssa.Store); ok {
							fa, _ = st.Addr.(*ssa.FieldAddr)
							// stores into nested value fields: x.A.B = v  (FieldAddr of FieldAddr)
							for fa != nil {
								if matchPattern(fr.Target, strings.SplitN(fieldOf(fa), ".", 2)[0]) {
									hit = true
									break
								}
								inner, ok := fa.X.(*ssa.FieldAddr)
								if !ok {
									break
								}
								fa = inner
							}
						}
						if mu, ok := in.(*ssa.MapUpdate); ok {
							if u, ok := mu.Map.(*ssa.UnOp); ok {
								if f2, ok := u.X.(*ssa.FieldAddr); ok && matchPattern(fr.Target, strings.SplitN(fieldOf(f2), ".", 2)[0]) {
									hit = true
								}
							}
						}
						// stores into elements of slices held in such fields: x.Nodes[i] = v
						if st, ok := in.(*ssa.Store); ok {
							if ia, ok := st.Addr.(*ssa.IndexAddr); ok {
								if u, ok := ia.X.(*ssa.UnOp); ok {
									if f2, ok := u.X.(*ssa.FieldAddr); ok && matchPattern(fr.Target, strings.SplitN(fieldOf(f2), ".", 2)[0]) {
										hit = true
									}
								}
							}
						}
					case "stores-map":
						// any update (or delete) of a map whose type reads Target, e.g. map[string]*BlockNode
						if mu, ok := in.(*ssa.MapUpdate); ok && shortTypeString(mu.Map.Type()) == fr.Target {
							hit = true
						}
						if ci, ok := in.(ssa.CallInstruction); ok {
							if b, ok := ci.Common().Value.(*ssa.Builtin); ok && (b.Name() == "delete" || b.Name() == "clear") && len(ci.Common().Args) > 0 && shortTypeString(ci.Common().Args[0].Type()) == fr.Target {
								hit = true
							}
						}
					case "stores-global":
						if st, ok := in.(*ssa.Store); ok {
							if g, ok := st.Addr.(*ssa.Global); ok && g.Pkg != nil && strings.HasPrefix(g.Pkg.Pkg.Path(), jetPath) && matchPattern(fr.Target, g.Name()) {
								hit = true
							}
						}
					case "loads":
						if u, ok := in.(*ssa.UnOp); ok {
							if fa, ok := u.X.(*ssa.FieldAddr); ok && fieldOf(fa) == fr.Target {
								hit = true
							}
						}
					case "calls":
						if ci, ok := in.(ssa.CallInstruction); ok {
							c := ci.Common()
							if sf := c.StaticCallee(); sf != nil && fnKey(sf) == fr.Target {
								hit = true
							}
							if c.IsInvoke() && "("+typeKeyString(c.Value.Type())+")."+c.Method.Name() == fr.Target {
								hit = true
							}
						}
					}
					if hit {
						nsites++
						if !allowedFn(key, fr.Allow) {
							p := e.fset.Position(in.Pos())
							offenders = append(offenders, fmt.Sprintf("%s (%s:%d)", key, shortFile(p.Filename), p.Line))
						}
					}
				}
			}
		}
		res.Detail = fmt.Sprintf("%s of %s allowed only in {%s}; %d sites found", fr.Kind, fr.Target, strings.Join(fr.Allow, ", "), nsites)
		if len(offenders) > 0 {
			res.OK = false
			res.Detail += "; offending: " + strings.Join(offenders, "; ")
		}
		if nsites == 0 {
			res.OK = false
			res.Detail += "; no site found at all (rule is vacuous: the target may have been renamed)"
		}
		out = append(out, res)
	}
	return out
}

// isWriteAccess: does the value at this address get modified (store to the field, or update of the map it holds)?
func isWriteAccess(addr ssa.Value) bool {
	if u, ok := addr.(*ssa.UnOp); ok {
		// the loaded value itself (package variables have no referrer lists)
		if vr := u.Referrers(); vr != nil {
			for _, rr := range *vr {
				switch w := rr.(type) {
				case *ssa.MapUpdate:
					if w.Map == ssa.Value(u) {
						return true
					}
				case ssa.CallInstruction:
					if b, ok := w.Common().Value.(*ssa.Builtin); ok && b.Name() == "delete" {
						return true
					}
				}
			}
		}
		return false
	}
	refs := addr.Referrers()
	if refs == nil {
		return false
	}
	for _, r := range *refs {
		switch u := r.(type) {
		case *ssa.Store:
			if u.Addr == addr {
				return true
			}
		case *ssa.UnOp:
			// loaded value: look at how the map is used
			if vr := u.Referrers(); vr != nil {
				for _, rr := range *vr {
					switch w := rr.(type) {
					case *ssa.MapUpdate:
						if w.Map == ssa.Value(u) {
							return true
						}
					case ssa.CallInstruction:
						if b, ok := w.Common().Value.(*ssa.Builtin); ok && b.Name() == "delete" {
							return true
						}
					}
				}
			}
		}
	}
	return false
}

// guardAccess emits the lock obligation for an access to a guarded field.
func (f *fx) guardAccess(target string, global bool, base Val, baseT types.Type, addr ssa.Value, pos token.Pos) {
	for _, g := range f.e.specs.Guards {
		if g.Target != target || g.Global != global {
			continue
		}
		env := f.top.topEnv.withState(f.cur, f.top.entry)
		env = env.child()
		var fresh Term = tFalse
		if !global {
			env.bound["self"] = TV{V: base, GoT: baseT}
			if base.Kind == vTerm {
				fresh = T("Bool", "(> %s %s)", base.T.S, f.top.entryAlloc.S)
			} else if base.Kind == vLoc && base.Loc.Root == rootHeap {
				fresh = T("Bool", "(> %s %s)", base.Loc.Ref.S, f.top.entryAlloc.S)
			}
		}
		lock := f.reify(f.evalSpec(g.Lock, env).V)
		k := "X:Held"
		f.regKey(k, arraySort("Int", "Int"))
		held := sel(f.get(f.cur, k), lock)
		var goal Term
		what := "read"
		if isWriteAccess(addr) {
			what = "write"
			goal = or(fresh, T("Bool", "(= %s 2)", held.S))
		} else {
			goal = or(fresh, T("Bool", "(>= %s 1)", held.S))
		}
		where, txt := f.srcLine(pos)
		base := fmt.Sprintf("guard:%s:%s", target, what)
		f.oblige("guard", fmt.Sprintf("%s#%d", base, f.ordinal(base)), goal, []string{"C11"}, where, what+" access to "+target+" requires "+g.Src+" to be held: "+txt)
	}
}

// guardedFunctions lists the functions that touch a guarded field or package variable.
func (e *Engine) guardedFunctions() []string {
	seen := map[string]bool{}
	var keys []string
	for _, fn := range e.repoFunctions() {
		top := fn
		for top.Parent() != nil {
			top = top.Parent()
		}
		for _, b := range fn.Blocks {
			for _, in := range b.Instrs {
				hit := false
				switch x := in.(type) {
				case *ssa.FieldAddr:
					for _, g := range e.specs.Guards {
						if !g.Global && g.Target == fieldOf(x) {
							hit = true
						}
					}
				case *ssa.UnOp:
					if gl, ok := x.X.(*ssa.Global); ok {
						for _, g := range e.specs.Guards {
							if g.Global && g.Target == gl.Name() {
								hit = true
							}
						}
					}
				}
				if ci, ok := in.(ssa.CallInstruction); ok && strings.HasPrefix(calleeKeyOf(ci.Common()), "(*sync.RWMutex).") {
					hit = true
				}
				if hit && !seen[fnKey(top)] {
					seen[fnKey(top)] = true
					keys = append(keys, fnKey(top))
				}
			}
		}
	}
	sort.Strings(keys)
	return keys
}

// lockUsers: repository functions that (transitively, over static calls) lock a mutex or touch guarded state.
func (e *Engine) lockUsers() map[string]bool {
	if e.lockUserSet != nil {
		return e.lockUserSet
	}
	direct := map[string]bool{}
	calls := map[string][]string{}
	for _, k := range e.guardedFunctions() {
		direct[k] = true
	}
	for _, fn := range e.repoFunctions() {
		k := fnKey(fn)
		for _, b := range fn.Blocks {
			for _, in := range b.Instrs {
				ci, ok := in.(ssa.CallInstruction)
				if !ok {
					continue
				}
				key := calleeKeyOf(ci.Common())
				if strings.HasPrefix(key, "(*sync.RWMutex).") || strings.HasPrefix(key, "(*sync.Mutex).") {
					direct[k] = true
				}
				if key != "" {
					calls[k] = append(calls[k], key)
				}
			}
		}
		for _, a := range fn.AnonFuncs {
			calls[k] = append(calls[k], fnKey(a))
		}
	}
	for changed := true; changed; {
		changed = false
		for k, cs := range calls {
			if direct[k] {
				continue
			}
			for _, c := range cs {
				if direct[c] {
					direct[k] = true
					changed = true
					break
				}
			}
		}
	}
	e.lockUserSet = direct
	return direct
}

// findCycle looks for a path target -> ... -> target over static callees and closures created by a function.
func (e *Engine) findCycle(fns []*ssa.Function, target string, cuts []string) string {
	byKey := map[string]*ssa.Function{}
	for _, fn := range fns {
		byKey[fnKey(fn)] = fn
	}
	cut := map[string]bool{}
	for _, c := range cuts {
		cut[c] = true
	}
	succ := func(fn *ssa.Function) []string {
		var out []string
		for _, b := range fn.Blocks {
			for _, in := range b.Instrs {
				switch x := in.(type) {
				case ssa.CallInstruction:
					if sf := x.Common().StaticCallee(); sf != nil {
						out = append(out, fnKey(sf))
					}
				case *ssa.MakeClosure:
					if cf, ok := x.Fn.(*ssa.Function); ok {
						out = append(out, fnKey(cf))
					}
				}
			}
		}
		return out
	}
	start := byKey[target]
	if start == nil {
		return "function " + target + " not found (rule is vacuous)"
	}
	seen := map[string]bool{}
	var path []string
	var dfs func(k string) bool
	dfs = func(k string) bool {
		fn := byKey[k]
		if fn == nil || cut[k] {
			return false
		}
		path = append(path, k)
		for _, n := range succ(fn) {
			if n == target {
				path = append(path, n)
				return true
			}
			if !seen[n] {
				seen[n] = true
				if dfs(n) {
					return true
				}
			}
		}
		path = path[:len(path)-1]
		return false
	}
	if dfs(target) {
		return strings.Join(path, " -> ")
	}
	return ""
}

// shortTypeString: the type as written inside package jet (no package path on jet's own types).
func shortTypeString(t types.Type) string {
	return types.TypeString(t, func(p *types.Package) string {
		if strings.HasSuffix(p.Path(), "CloudyKit/jet/v6") {
			return ""
		}
		return p.Name()
	})
}
