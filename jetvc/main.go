package main

import (
	"flag"
	"fmt"
	"os"
	"sort"
	"strings"
	"sync"
	"time"
)

func main() {
	if len(os.Args) < 2 {
		fmt.Fprintln(os.Stderr, "usage: jetvc verify|check ...")
		os.Exit(2)
	}
	switch os.Args[1] {
	case "verify":
		cmdVerify(os.Args[2:])
	case "check":
		cmdCheck(os.Args[2:])
	case "list":
		e, err := loadEngine("/repo", "/verif")
		if err != nil {
			fmt.Fprintln(os.Stderr, err)
			os.Exit(2)
		}
		for _, fn := range e.repoFunctions() {
			n := 0
			for _, b := range fn.Blocks {
				n += len(b.Instrs)
			}
			_, has := e.specs.Contracts[fnKey(fn)]
			fmt.Printf("%-50s instrs=%-5d contract=%v\n", fnKey(fn), n, has)
		}
	default:
		fmt.Fprintln(os.Stderr, "unknown command", os.Args[1])
		os.Exit(2)
	}
}

func hasProp(props []string, p string) bool {
	for _, q := range props {
		if q == p {
			return true
		}
	}
	return false
}

// unitsFor selects the contract keys relevant for a property ("" = all).
func (e *Engine) unitsFor(prop string, only string) []string {
	var keys []string
	for _, k := range e.specs.Order {
		c := e.specs.Contracts[k]
		if only != "" {
			if k == only {
				keys = append(keys, k)
			}
			continue
		}
		if c.Trusted || c.Inline {
			continue
		}
		if strings.HasPrefix(k, "field:") || strings.HasPrefix(k, "type:") {
			continue
		}
		fn := e.fnByKey[k]
		if fn == nil || len(fn.Blocks) == 0 {
			continue
		}
		if prop == "" || hasProp(c.Props, prop) || clausesMention(c, prop) {
			keys = append(keys, k)
		}
	}
	if prop == "C11" && only == "" {
		have := map[string]bool{}
		for _, k := range keys {
			have[k] = true
		}
		for _, k := range e.guardedFunctions() {
			if have[k] {
				continue
			}
			if c, ok := e.specs.Contracts[k]; ok && (c.Trusted || c.Inline) {
				continue
			}
			if _, ok := e.specs.Contracts[k]; !ok {
				// functions without a contract are checked for the lock discipline only
				e.specs.Contracts[k] = &Contract{Key: k, Props: []string{"C11"}, NoCrash: true, Modifies: []*ModEntry{{Kind: "all", Src: "*"}}, Loops: map[int]*LoopSpec{}, Where: "implicit (guard rules)", Implicit: true}
			}
			keys = append(keys, k)
		}
	}
	return keys
}

func clausesMention(c *Contract, p string) bool {
	for _, cl := range append(append(append(append([]*Clause{}, c.Requires...), c.Ensures...), c.Exsures...), c.Checks...) {
		if hasProp(cl.Props, p) {
			return true
		}
	}
	for _, l := range c.Loops {
		for _, cl := range append(append(append(append([]*Clause{}, l.Invariants...), l.Monotone...), l.Steps...), l.Entry...) {
			if hasProp(cl.Props, p) {
				return true
			}
		}
	}
	for _, cs := range c.CallSites {
		if cs.Clause != nil && hasProp(cs.Clause.Props, p) {
			return true
		}
		if hasProp(cs.Props, p) {
			return true
		}
	}
	return false
}

func (e *Engine) runUnits(keys []string, outDir string, timeoutMs int, thorough bool) []*Unit {
	var units []*Unit
	for _, k := range keys {
		units = append(units, e.verifyUnit(k))
	}
	var wg sync.WaitGroup
	sem := make(chan struct{}, 12)
	for _, u := range units {
		if u.Unsupported != "" {
			continue
		}
		wg.Add(1)
		go func(u *Unit) {
			defer wg.Done()
			sem <- struct{}{}
			defer func() { <-sem }()
			u.discharge(outDir, timeoutMs, thorough)
		}(u)
	}
	wg.Wait()
	return units
}

func cmdVerify(args []string) {
	fs := flag.NewFlagSet("verify", flag.ExitOnError)
	repo := fs.String("repo", "/repo", "repository")
	verif := fs.String("verif", "/verif", "verif dir")
	prop := fs.String("prop", "", "property id")
	only := fs.String("func", "", "single contract key")
	out := fs.String("out", "", "output dir for smt files")
	timeout := fs.Int("timeout", 10000, "per-obligation timeout ms")
	verbose := fs.Bool("v", false, "verbose")
	dump := fs.String("dump", "", "write standalone queries for obligations whose name contains this string")
	fs.Parse(args)
	t0 := time.Now()
	e, err := loadEngine(*repo, *verif)
	if err != nil {
		fmt.Fprintln(os.Stderr, "load:", err)
		os.Exit(2)
	}
	fmt.Printf("loaded in %.1fs, %d contracts\n", time.Since(t0).Seconds(), len(e.specs.Contracts))
	if *out == "" {
		d, _ := os.MkdirTemp("", "jetvc")
		*out = d
	}
	os.MkdirAll(*out, 0o755)
	units := e.runUnits(e.unitsFor(*prop, *only), *out, *timeout, false)
	nobl, nok := 0, 0
	for _, u := range units {
		if u.Unsupported != "" {
			fmt.Printf("UNSUPPORTED %s: %s\n", u.Key, u.Unsupported)
			continue
		}
		ok, bad := 0, 0
		for _, o := range u.Script.obls {
			good := o.good()
			if good {
				ok++
			} else {
				bad++
			}
		}
		nobl += ok + bad
		nok += ok
		fmt.Printf("%-40s obligations=%d discharged=%d failed=%d  %.1fs (%s)\n", u.Key, ok+bad, ok, bad, u.PrimaryS, u.File)
		if *dump != "" {
			for i, o := range u.Script.obls {
				if strings.Contains(o.Name, *dump) {
					fn := fmt.Sprintf("%s/dump_%s_%d.smt2", *out, mangle(u.Key), i)
					os.WriteFile(fn, []byte(u.standaloneScript(i, true)), 0o644)
					fmt.Printf("    dumped %s -> %s\n", o.Name, fn)
				}
			}
		}
		for _, o := range u.Script.obls {
			good := o.good()
			if !good || *verbose {
				fmt.Printf("    %-8s %-60s %s  %s | %s\n", o.Result, o.Name, o.Backend, o.Where, o.Detail)
			}
		}
		if *verbose {
			as := append([]string{}, u.Assumptions...)
			sort.Strings(as)
			for _, a := range as {
				fmt.Printf("    assume: %s\n", a)
			}
		}
	}
	fmt.Printf("total obligations=%d discharged=%d in %.1fs; smt files in %s\n", nobl, nok, time.Since(t0).Seconds(), *out)
}

