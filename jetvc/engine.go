package main

import (
	"fmt"
	"go/ast"
	"go/parser"
	"go/token"
	"go/types"
	"os"
	"path/filepath"
	"sort"
	"strings"

	"golang.org/x/tools/go/packages"
	"golang.org/x/tools/go/ssa"
	"golang.org/x/tools/go/ssa/ssautil"
)

type Engine struct {
	fset      *token.FileSet
	prog      *ssa.Program
	pkgs      []*packages.Package
	spkgs     []*ssa.Package
	jet       *ssa.Package
	jetTypes  *types.Package
	specs     *Specs
	sorts     *Sorts
	keySorts  map[string]string
	keyIsRef  map[string]bool
	lockUserSet map[string]bool
	fnIDs     map[string]int
	fnByKey   map[string]*ssa.Function
	errorType *types.Interface
	rtErrType types.Type
	sizes     types.Sizes
	repo      string
	verifDir  string
	typeCache map[string]types.Type
	traceElemType  map[string]types.Type
	traceElemSorts map[string]string
}

func (e *Engine) traceElemSort(tr string) string { return e.traceElemSorts[tr] }

func loadEngine(repo, verifDir string) (*Engine, error) {
	e := &Engine{repo: repo, verifDir: verifDir, keySorts: map[string]string{}, keyIsRef: map[string]bool{}, fnIDs: map[string]int{}, fnByKey: map[string]*ssa.Function{}, typeCache: map[string]types.Type{}, traceElemType: map[string]types.Type{}, traceElemSorts: map[string]string{}}
	e.fset = token.NewFileSet()
	cfg := &packages.Config{
		Mode:       packages.NeedName | packages.NeedFiles | packages.NeedCompiledGoFiles | packages.NeedImports | packages.NeedDeps | packages.NeedTypes | packages.NeedSyntax | packages.NeedTypesInfo | packages.NeedTypesSizes,
		Dir:        repo,
		Fset:       e.fset,
		BuildFlags: []string{"-tags=verif"},
		Env:        append(os.Environ(), "GOFLAGS=-mod=mod", "GOPROXY=off", "GOSUMDB=off", "GOTOOLCHAIN=local"),
	}
	pkgs, err := packages.Load(cfg, "./", "./utils", "./loaders/...")
	if err != nil {
		return nil, err
	}
	nerr := 0
	packages.Visit(pkgs, nil, func(p *packages.Package) {
		for _, er := range p.Errors {
			if strings.HasPrefix(p.PkgPath, jetPath) {
				fmt.Fprintf(os.Stderr, "load error: %s: %v\n", p.PkgPath, er)
				nerr++
			}
		}
	})
	if nerr > 0 {
		return nil, fmt.Errorf("%d errors loading %s", nerr, repo)
	}
	e.pkgs = pkgs
	prog, spkgs := ssautil.AllPackages(pkgs, ssa.GlobalDebug)
	prog.Build()
	e.prog, e.spkgs = prog, spkgs
	for _, sp := range spkgs {
		if sp != nil && sp.Pkg.Path() == jetPath {
			e.jet = sp
			e.jetTypes = sp.Pkg
		}
	}
	if e.jet == nil {
		return nil, fmt.Errorf("package %s not loaded", jetPath)
	}
	e.sizes = types.SizesFor("gc", "amd64")
	e.errorType = types.Universe.Lookup("error").Type().Underlying().(*types.Interface)
	if rp := e.importedPkg("runtime"); rp != nil {
		if o := rp.Scope().Lookup("Error"); o != nil {
			e.rtErrType = o.Type()
		}
	}
	// index functions by contract key
	for fn := range ssautil.AllFunctions(prog) {
		if fn.Pkg == nil && fn.Parent() == nil {
			if fn.Object() == nil || fn.Object().Pkg() == nil {
				continue
			}
		}
		if fn.Synthetic != "" && fn.Parent() == nil && !strings.HasPrefix(fn.Synthetic, "package initializer") {
			continue
		}
		k := fnKey(fn)
		if old, ok := e.fnByKey[k]; ok {
			// prefer functions with bodies from the jet packages
			if len(old.Blocks) > 0 {
				continue
			}
		}
		e.fnByKey[k] = fn
	}
	// specs
	e.specs = newSpecs()
	e.sorts = newSorts()
	var files []string
	for _, pat := range []string{filepath.Join(verifDir, "axioms", "*.spec"), filepath.Join(verifDir, "spec", "*.spec"), filepath.Join(repo, "*_contracts_verif.go"), filepath.Join(repo, "utils", "*_contracts_verif.go"), filepath.Join(repo, "loaders", "*", "*_contracts_verif.go")} {
		m, _ := filepath.Glob(pat)
		sort.Strings(m)
		files = append(files, m...)
	}
	for _, fl := range files {
		if err := e.specs.LoadSpecFile(fl); err != nil {
			return nil, err
		}
	}
	if err := e.specs.resolveRefines(); err != nil {
		return nil, err
	}
	return e, nil
}

func (e *Engine) fnID(fn *ssa.Function) Term { return e.fnIDByName(fnKey(fn)) }

func (e *Engine) fnIDByName(key string) Term {
	id, ok := e.fnIDs[key]
	if !ok {
		id = len(e.fnIDs) + 1
		e.fnIDs[key] = id
	}
	return intLit(-int64(id))
}

func (e *Engine) importedPkg(name string) *types.Package {
	var found *types.Package
	seen := map[*types.Package]bool{}
	var walk func(p *types.Package)
	walk = func(p *types.Package) {
		if seen[p] || found != nil {
			return
		}
		seen[p] = true
		if p.Name() == name && p != e.jetTypes {
			found = p
			return
		}
		for _, q := range p.Imports() {
			walk(q)
		}
	}
	for _, p := range e.pkgs {
		if p.Types != nil {
			for _, q := range p.Types.Imports() {
				if q.Name() == name {
					return q
				}
			}
		}
	}
	for _, p := range e.pkgs {
		if p.Types != nil {
			walk(p.Types)
		}
	}
	return found
}

// lookupType parses a Go type expression in the scope of package jet (plus imported package names).
func (e *Engine) lookupType(s string) types.Type {
	s = strings.TrimSpace(s)
	if t, ok := e.typeCache[s]; ok {
		return t
	}
	var t types.Type
	switch s {
	case "Int", "int":
		t = types.Typ[types.Int]
	case "Bool", "bool":
		t = types.Typ[types.Bool]
	case "Str", "string":
		t = types.Typ[types.String]
	default:
		x, err := parser.ParseExpr(s)
		if err == nil {
			t = e.typeOfExpr(x)
		}
	}
	e.typeCache[s] = t
	return t
}

func (e *Engine) typeOfExpr(x ast.Expr) types.Type {
	switch v := x.(type) {
	case *ast.Ident:
		if obj := types.Universe.Lookup(v.Name); obj != nil {
			if tn, ok := obj.(*types.TypeName); ok {
				return tn.Type()
			}
		}
		for _, p := range e.pkgs {
			if p.Types == nil {
				continue
			}
			if obj := p.Types.Scope().Lookup(v.Name); obj != nil && p.Types == e.jetTypes {
				if tn, ok := obj.(*types.TypeName); ok {
					return tn.Type()
				}
			}
		}
	case *ast.SelectorExpr:
		if id, ok := v.X.(*ast.Ident); ok {
			var pkg *types.Package
			if id.Name == "jet" {
				pkg = e.jetTypes
			} else {
				pkg = e.importedPkg(id.Name)
				if pkg == nil {
					for _, p := range e.pkgs {
						if p.Types != nil && p.Types.Name() == id.Name {
							pkg = p.Types
						}
					}
				}
			}
			if pkg != nil {
				if obj := pkg.Scope().Lookup(v.Sel.Name); obj != nil {
					if tn, ok := obj.(*types.TypeName); ok {
						return tn.Type()
					}
				}
			}
		}
	case *ast.StarExpr:
		if t := e.typeOfExpr(v.X); t != nil {
			return types.NewPointer(t)
		}
	case *ast.ArrayType:
		if v.Len == nil {
			if t := e.typeOfExpr(v.Elt); t != nil {
				return types.NewSlice(t)
			}
		}
	case *ast.MapType:
		k, val := e.typeOfExpr(v.Key), e.typeOfExpr(v.Value)
		if k != nil && val != nil {
			return types.NewMap(k, val)
		}
	case *ast.InterfaceType:
		return types.NewInterfaceType(nil, nil)
	case *ast.ParenExpr:
		return e.typeOfExpr(v.X)
	}
	return nil
}

// specSort maps a type name used in ufunc/pred/ghost declarations to a sort.
func (e *Engine) specSort(name string) string {
	name = strings.TrimSpace(name)
	switch name {
	case "Int", "int", "Ref":
		return "Int"
	case "Bool", "bool":
		return "Bool"
	case "Str", "string":
		return "Str"
	case "RV", "Slice", "Iface", "Float":
		return name
	}
	for _, s := range e.specs.Sorts {
		if s == name {
			return s
		}
	}
	if strings.HasPrefix(name, "(Array ") {
		return name
	}
	if t := e.lookupType(name); t != nil {
		return e.sorts.sortOf(t)
	}
	panic(unsupported{"unknown spec type " + name})
}

func (e *Engine) ifaceTypeOfKey(key string) types.Type {
	if !strings.HasPrefix(key, "(") {
		return nil
	}
	i := strings.Index(key, ")")
	return e.lookupType(key[1:i])
}

// ---------------------------------------------------------------------------
// verification units

type Unit struct {
	Key         string
	Props       []string
	Script      *Script
	Preamble    string
	Unsupported string
	Assumptions []string
	SSAInstrs   int
	Contract    *Contract
	File        string
	timeoutMs   int
	PrimaryS    float64
}

// good reports whether an obligation is settled in the right direction.
func (o *Obligation) good() bool {
	if o.Cover {
		return o.Result != "unsat" && o.Result != "" && !strings.HasPrefix(o.Result, "error")
	}
	return o.Result == "unsat"
}

func (e *Engine) verifyUnit(key string) *Unit {
	c := e.specs.Contracts[key]
	u := &Unit{Key: key, Contract: c}
	if c != nil {
		u.Props = c.Props
	}
	fn := e.fnByKey[key]
	if fn == nil {
		u.Unsupported = "no function with this key in the loaded packages"
		return u
	}
	if len(fn.Blocks) == 0 {
		u.Unsupported = "function has no body (external)"
		return u
	}
	for _, b := range fn.Blocks {
		u.SSAInstrs += len(b.Instrs)
	}
	sc := newScript()
	u.Script = sc
	f := &fx{e: e, sc: sc, fn: fn, vals: map[ssa.Value]Val{}, contract: c}
	f.top = f
	f.epochConsts = map[string]Term{}
	f.epochAlloc = map[int]Term{}
	f.arrBound = map[string]Term{}
	f.counters = map[string]int{}
	f.assumptions = map[string]bool{}
	f.srcLines = map[string][]string{}
	f.litStrs = map[string]string{}
	f.rangeOf = map[*ssa.Range]ssa.Value{}
	func() {
		defer func() {
			if r := recover(); r != nil {
				if us, ok := r.(unsupported); ok {
					u.Unsupported = us.msg
					return
				}
				panic(r)
			}
		}()
		e.runUnit(f, c)
	}()
	for a := range f.assumptions {
		u.Assumptions = append(u.Assumptions, a)
	}
	sort.Strings(u.Assumptions)
	u.Preamble = e.preamble()
	return u
}

func (e *Engine) preamble() string {
	var ufs []string
	names := make([]string, 0, len(e.specs.UFuncs))
	for n := range e.specs.UFuncs {
		names = append(names, n)
	}
	sort.Strings(names)
	for _, n := range names {
		u := e.specs.UFuncs[n]
		var ps []string
		for _, p := range u.PTypes {
			ps = append(ps, e.specSort(p))
		}
		ufs = append(ufs, fmt.Sprintf("(declare-fun uf_%s (%s) %s)", n, strings.Join(ps, " "), e.specSort(u.RType)))
	}
	ufs = append(ufs, "(declare-fun closure_fn (Int) Int)")
	return e.sorts.preamble(e.specs.Sorts, ufs, nil)
}

func (e *Engine) runUnit(f *fx, c *Contract) {
	fn := f.fn
	sc := f.sc
	entry := &State{m: map[string]Term{}}
	stateEpoch[entry] = 0
	f.entry = entry
	f.regKey("E:alloc", "Int")
	f.regKey("E:panicking", "Bool")
	f.regKey("E:pval", "Iface")
	f.entryAlloc = f.get(entry, "E:alloc")
	f.epochAlloc[0] = f.entryAlloc
	sc.assert(T("Bool", "(>= %s 0)", f.entryAlloc.S))
	f.set(entry, "E:panicking", tFalse)
	f.cur = entry
	f.curReach = tTrue
	f.topEnv = &Env{f: f, vars: map[string]TV{}, cur: entry, old: entry}
	for _, p := range fn.Params {
		t := sc.fresh("p_"+p.Name(), e.sorts.sortOf(p.Type()))
		f.assumeTyped(entry, t, p.Type())
		f.vals[p] = termVal(t)
		f.topEnv.vars[p.Name()] = TV{V: termVal(t), GoT: p.Type()}
	}
	if c != nil && len(c.Params) > 0 {
		for i, n := range c.Params {
			if i < len(fn.Params) && n != "" && n != "_" {
				f.topEnv.vars[n] = f.topEnv.vars[fn.Params[i].Name()]
			}
		}
	}
	f.topEnv.vars["callee"] = TV{V: termVal(e.fnID(fn)), GoT: fn.Signature}
	for _, fv := range fn.FreeVars {
		t := sc.fresh("fv_"+fv.Name(), e.sorts.sortOf(fv.Type()))
		f.assumeTyped(entry, t, fv.Type())
		f.sc.assert(T("Bool", "(> %s 0)", t.S))
		f.freeVars = append(f.freeVars, termVal(t))
		f.topEnv.vars[fv.Name()] = TV{V: termVal(t), GoT: fv.Type()}
	}
	// axioms
	sc.axiomPos = -1
	for _, ax := range e.specs.Axioms {
		// axioms go into a separate list; only those mentioning symbols used by the unit are emitted
		n := len(sc.lines)
		t := f.specBool(ax, f.topEnv)
		// declarations made while evaluating the axiom stay in the script (later code may use the same
		// constants); assertions made on the way belong to the axiom
		var keep, own []string
		for _, l := range sc.lines[n:] {
			if strings.HasPrefix(l, "(declare-") {
				keep = append(keep, l)
			} else {
				own = append(own, l)
			}
		}
		sc.lines = append(sc.lines[:n], keep...)
		sc.axioms = append(sc.axioms, strings.Join(append(own, "(assert "+t.S+")"), "\n"))
	}
	sc.axiomPos = len(sc.lines)
	if c != nil {
		for _, rq := range c.Requires {
			sc.assert(f.specBool(rq, f.topEnv))
		}
	}
	if fn.Synthetic == "package initializer" && fn.Pkg != nil {
		// the package initialiser runs once: it is entered with its guard variable still false
		if g := fn.Pkg.Var("init$guard"); g != nil {
			if v := f.val(g); v.Kind == vLoc {
				sc.assert(not(f.load(entry, v.Loc)))
			}
		}
	}
	if _, ok := e.specs.Ghosts["Held"]; ok {
		// lock discipline: every function is entered with no jet lock held by the calling goroutine
		// (checked at call sites: see noLockAcrossCall)
		f.regKey("X:Held", arraySort("Int", "Int"))
		h := f.get(entry, "X:Held")
		sc.assert(T("Bool", "(forall ((m Int)) (! (= (select %s m) 0) :pattern ((select %s m))))", h.S, h.S))
		f.note("every function is entered with no lock of this package held by the calling goroutine (obligation at every call made while a lock is held)")
	}
	f.cover("cover:entry")
	f.run(f.cloneState(entry), tTrue)
	// normal exits
	rts := resultTypes(fn.Signature)
	var exitConds []Term
	for i, r := range f.returns {
		f.cur, f.curReach = r.state, r.cond
		exitConds = append(exitConds, r.cond)
		if c == nil {
			continue
		}
		env := f.topEnv.withState(r.state, entry)
		env.vars = map[string]TV{}
		for k, v := range f.topEnv.vars {
			env.vars[k] = v
		}
		for j, rv := range r.results {
			tv := TV{V: rv, GoT: rts[j]}
			env.vars[fmt.Sprintf("result%d", j)] = tv
			if j == 0 {
				env.vars["result"] = tv
			}
			if n := fn.Signature.Results().At(j).Name(); n != "" && n != "_" {
				env.vars[n] = tv
			}
		}
		where, _ := f.srcLine(r.pos)
		if c.NoReturn {
			f.oblige("ensures", fmt.Sprintf("noreturn@ret#%d", i), not(r.cond), nil, where, "function declared noreturn returns normally")
		}
		for k, en := range c.Ensures {
			g := f.specBool(en, env)
			f.oblige("ensures", fmt.Sprintf("ensures%s@ret#%d", clauseName(en, k), i), g, en.Props, en.Where+" / "+where, en.Src)
		}
		// check clauses are assertions at the return statement: besides parameters and results they may name
		// the function's locals (their values at that return)
		cenv := *env
		if r.block != nil {
			f.curBlock, f.curIdx = r.block, r.idx
			cenv.f = f
			cenv.localsFallback = true
		}
		for k, en := range c.Checks {
			g := f.specBool(en, &cenv)
			f.oblige("ensures", fmt.Sprintf("check%s@ret#%d", clauseName(en, k), i), g, en.Props, en.Where+" / "+where, en.Src)
		}
	}
	// exceptional exits
	for i, p := range f.panicsOut {
		f.cur, f.curReach = p.state, p.cond
		if c == nil {
			continue
		}
		where, _ := f.srcLine(p.pos)
		if c.NoPanic {
			f.oblige("nopanic", fmt.Sprintf("nopanic#%d", i), not(p.cond), nil, where, "function declared nopanic may panic here ("+p.what+")")
			continue
		}
		if !c.AnyPanic && p.pval.S != "" {
			// the panic value leaving the function is an error (callers rely on it: recover() paths convert it)
			errID := f.e.sorts.ifaceID(types.Universe.Lookup("error").Type())
			f.oblige("exsures", fmt.Sprintf("panic-value-is-an-error#%d", i), T("Bool", "(implements (itag %s) %d)", p.pval.S, errID), nil, where, "a function not declared anypanic panics only with error values ("+p.what+")")
		}
		env := f.topEnv.withState(p.state, entry)
		for k, ex := range c.Exsures {
			g := f.specBool(ex, env)
			f.oblige("exsures", fmt.Sprintf("exsures%s@panic#%d", clauseName(ex, k), i), g, ex.Props, ex.Where+" / "+where, ex.Src)
		}
	}
	// every call-site clause must have applied to some call: a clause that matches nothing checks nothing
	if c != nil {
		for _, cs := range c.CallSites {
			if cs.Clause == nil || f.matchedSites[cs] {
				continue
			}
			f.curReach = tTrue
			f.oblige("callsite-count", fmt.Sprintf("callsite-unmatched:%s#%d%s", cs.Callee, cs.Which, clauseName(cs.Clause, 0)), tFalse, cs.Clause.Props, cs.Where, "this call-site clause applied to no call of "+cs.Callee+" in the function")
		}
	}
	// static call-site counts
	if c != nil {
		for _, cs := range c.CallSites {
			if cs.Count < 0 {
				continue
			}
			n := countCallSites(fn, cs.Callee)
			f.curReach = tTrue
			g := tTrue
			if n != cs.Count {
				g = tFalse
			}
			f.oblige("callsite-count", fmt.Sprintf("callsite-count:%s", cs.Callee), g, cs.Props, cs.Where, fmt.Sprintf("expected %d static call sites of %s, found %d", cs.Count, cs.Callee, n))
		}
	}
	if c != nil && !c.NoReturn && len(exitConds) > 0 {
		f.curReach = or(exitConds...)
		f.cover("cover:exit")
	}
}

// countCallSites counts static call sites of callee key in fn and its anonymous functions.
func countCallSites(fn *ssa.Function, key string) int {
	n := 0
	for _, b := range fn.Blocks {
		for _, in := range b.Instrs {
			if ci, ok := in.(ssa.CallInstruction); ok {
				c := ci.Common()
				if sf := c.StaticCallee(); sf != nil && fnKey(sf) == key {
					n++
				} else if c.IsInvoke() && "("+typeKeyString(c.Value.Type())+")."+c.Method.Name() == key {
					n++
				} else if sf == nil && !c.IsInvoke() && "dynamic:"+typeKeyString(c.Value.Type()) == key {
					n++ // a call of a func value
				} else if nt, ok := c.Value.Type().(*types.Named); ok && sf == nil && !c.IsInvoke() && "type:"+typeKeyString(nt) == key {
					n++ // a call of a value of a named func type
				}
			}
		}
	}
	for _, a := range fn.AnonFuncs {
		n += countCallSites(a, key)
	}
	return n
}
