package main

import (
	"fmt"
	"go/types"
	"sort"
	"strings"

	"golang.org/x/tools/go/ssa"
)

// ---------------------------------------------------------------------------
// Values

type valKind int

const (
	vTerm valKind = iota
	vLoc
	vTuple
	vFn
)

// Val is the engine-level value of an SSA value.
type Val struct {
	Kind valKind
	T    Term
	Loc  *Loc
	Tup  []Val
	Fn   *FnVal
}

func termVal(t Term) Val { return Val{Kind: vTerm, T: t} }
func locVal(l *Loc) Val  { return Val{Kind: vLoc, Loc: l} }

// FnVal is a statically known function or closure.
type FnVal struct {
	Fn       *ssa.Function
	Bindings []Val
	ID       Term
}

type rootKind int

const (
	rootHeap    rootKind = iota // struct object on the heap, fields in H:T.f arrays
	rootCell                    // non-struct object on the heap, C:<sort>
	rootBacking                 // slice backing store, B:<elemsort>; first path step is an index
	rootLocal                   // non-escaping local, state key
	rootGlobal                  // package-level variable, state key
)

type PathStep struct {
	Field int   // field index, or -1
	Idx   *Term // index term, or nil
}

// Loc is a symbolic memory location.
type Loc struct {
	Root rootKind
	Ref  Term       // heap/cell/backing
	Key  string     // local/global
	Typ  types.Type // type of the root object
	Path []PathStep
	PTyp types.Type // type of the location after Path (the pointee type)
}

func (l *Loc) extend(step PathStep, t types.Type) *Loc {
	n := *l
	n.Path = append(append([]PathStep{}, l.Path...), step)
	n.PTyp = t
	return &n
}

// ---------------------------------------------------------------------------
// State

// State maps state keys to their current SMT term. Keys:
//
//	H:<Struct>.<field>   (Array Int fieldsort)
//	C:<sort>             (Array Int sort)                cells
//	B:<sort>             (Array Int (Array Int sort))    slice backing
//	MV:<K>:<V>           (Array Int (Array K V))         map values
//	MD:<K>               (Array Int (Array K Bool))      map domains (shared by key sort and map ref)
//	L:<name>             local
//	G:<name>             package global
//	X:<name>             ghost / engine internal (alloc, panicking, pval, defer flags)
type State struct {
	m map[string]Term
}

func (s *State) clone() *State {
	n := &State{m: make(map[string]Term, len(s.m))}
	for k, v := range s.m {
		n.m[k] = v
	}
	return n
}

func (s *State) keys() []string {
	ks := make([]string, 0, len(s.m))
	for k := range s.m {
		ks = append(ks, k)
	}
	sort.Strings(ks)
	return ks
}

// ---------------------------------------------------------------------------
// Script: ordered list of SMT commands for one verification unit

type Obligation struct {
	timedOut bool // the last race ran a solver into its time limit
	Name    string
	Kind    string // requires, ensures, exsures, invariant-entry, invariant-preserved, crash, frame, nopanic, decreases, cover
	Props   []string
	Func    string
	Where   string // source position or contract position
	Goal    Term
	Reach   Term
	Index   int // number of script lines that precede it
	Cover   bool
	Detail  string
	Result  string // unsat (discharged), sat, unknown, timeout, error
	Backend string
	TimeS   float64
	Model   string
	Inputs  []string // terms whose model values are interesting
}

type Script struct {
	axioms []string // spec axioms (emitted only when relevant to the unit)
	axiomPos int    // position in lines where the axioms belong
	lines  []string
	obls   []*Obligation
	nfresh int
	names  map[string]bool
}

func newScript() *Script { return &Script{names: map[string]bool{}} }

func (sc *Script) fresh(base, sortName string) Term {
	base = mangle(base)
	sc.nfresh++
	name := fmt.Sprintf("%s!%d", base, sc.nfresh)
	sc.lines = append(sc.lines, fmt.Sprintf("(declare-const %s %s)", name, sortName))
	return Term{name, sortName}
}

func (sc *Script) declareOnce(name, decl string) {
	if sc.names[name] {
		return
	}
	sc.names[name] = true
	sc.lines = append(sc.lines, decl)
}

func (sc *Script) assert(t Term) {
	if t.S == "true" {
		return
	}
	sc.lines = append(sc.lines, "(assert "+t.S+")")
}

// define introduces a named abbreviation for a term (keeps formulas small).
func (sc *Script) define(base string, t Term) Term {
	if len(t.S) < 40 || !strings.HasPrefix(t.S, "(") {
		return t
	}
	c := sc.fresh(base, t.Sort)
	sc.lines = append(sc.lines, fmt.Sprintf("(assert (= %s %s))", c.S, t.S))
	return c
}
