package main

import (
	"bufio"
	"fmt"
	"go/ast"
	"go/parser"
	"os"
	"path/filepath"
	"regexp"
	"strconv"
	"strings"
)

// Clause is one requires/ensures/exsures/invariant expression.
type Clause struct {
	Label string   // optional [label]
	Props []string // property ids this clause is evidence for (defaults to the function's props)
	Src   string
	Expr  ast.Expr
	Where string // file:line
}

type LoopSpec struct {
	Invariants []*Clause
	Decreases  *Clause
	Entry      []*Clause // conditions that hold when the loop is first reached (not assumed for later iterations)
	Monotone   []*Clause // boolean expressions that, once true at the loop head, stay true at every later visit
	Steps      []*Clause // two-state conditions on one iteration: prev(e) is e at the loop head
}

// ModEntry: one entry of a modifies clause.
type ModEntry struct {
	Kind  string   // "point" (expr.field), "type" (Type.field), "ghost", "all", "elems" (slice elements of expr), "map" (map contents of expr)
	Expr  ast.Expr // for point/elems/map: the object expression
	Type  string   // for type
	Field string
	Ghost string
	Src   string
}

type Contract struct {
	Key      string // "lexText", "(*lexer).next", "strings.HasPrefix", "(Loader).Exists"
	Props    []string
	Params   []string // optional renaming of parameters (receiver first)
	Requires []*Clause
	Ensures  []*Clause
	Checks   []*Clause // postconditions proved on the body but not exported to callers (may mention lastret/visits/ncalls)
	Exsures  []*Clause
	Assumes  []*Clause // postconditions assumed at call sites but not proved on the body (reported as assumptions)
	Modifies []*ModEntry
	Loops    map[int]*LoopSpec
	NoPanic  bool // never exits by panic
	AnyPanic bool // may panic with a value that is not an error
	NoReturn bool // always exits by error-panic
	Trusted  bool // body not verified
	Inline   bool
	Pure     bool
	MayCrash bool // callee crash behaviour unknown (library): not used for obligations
	Decr     *Clause
	Where    string
	Fresh    []string // result names that are freshly allocated
	NoVerify bool     // contract given for callers only; body outside subset (counts as assumption)
	Reason   string
	Refines  string // key of a (dynamic-call) contract whose requires/ensures/modifies this one inherits
	NoCrash  bool   // crash obligations are not generated (assumed); recorded as an assumption
	Implicit bool   // synthesised for the lock-discipline pass: loops are cut with the invariant "true"
	CallSites []*CallSiteSpec
}

// CallSiteSpec pins what happens at the call sites of one callee inside the function under contract.
type CallSiteSpec struct {
	Callee string
	Which  int // ordinal, or -1 for all
	Count  int // expected number of static call sites, or -1
	Clause *Clause
	Where  string
	Props  []string // count clauses: callsite KEY count N {C10,C11}
}

type PredDef struct {
	Name   string
	Params []string
	PTypes []string // Go type expressions or spec sort names
	Body   ast.Expr
	Src    string
}

type UFunc struct {
	Name   string
	PTypes []string
	RType  string
}

type GhostVar struct {
	Name string
	Type string
}

// GuardRule: every access to a field (or package variable) must happen with a lock held.
type GuardRule struct {
	Target string   // "Type.field" or "global name"
	Global bool
	Lock   ast.Expr // over "self" (the object whose field is accessed)
	Src    string
	Where  string
}

// FrameRule is a package-wide syntactic frame condition checked by scanning SSA.
type FrameRule struct {
	Kind   string // "stores" | "loads" | "calls"
	Target string // "Type.field" or callee key
	Allow  []string
	Props  []string
	Where  string
}

type Specs struct {
	Immutable map[string]bool // package variables written only by init
	Contracts map[string]*Contract
	Preds     map[string]*PredDef
	UFuncs    map[string]*UFunc
	Axioms    []*Clause
	Ghosts    map[string]*GhostVar
	GhostOrd  []string
	Sorts     []string
	Frames    []*FrameRule
	Guards    []*GuardRule
	Order     []string
	ModSets   map[string]string
}

func newSpecs() *Specs {
	return &Specs{Contracts: map[string]*Contract{}, Preds: map[string]*PredDef{}, UFuncs: map[string]*UFunc{}, Ghosts: map[string]*GhostVar{}, ModSets: map[string]string{}}
}

var labelRe = regexp.MustCompile(`^\[([A-Za-z0-9_.:+-]+)\]\s*`)
var propsRe = regexp.MustCompile(`^\{([A-Z0-9, ]+)\}\s*`)

// preprocess turns the small amount of non-Go syntax into Go syntax:
//
//	a ==> b   becomes  imp(a, b)   (lowest precedence, right associative)
func preprocess(src string) string {
	// split at top-level "==>" (outside parens/brackets/strings)
	depth := 0
	inStr := byte(0)
	for i := 0; i < len(src); i++ {
		c := src[i]
		if inStr != 0 {
			if c == '\\' {
				i++
			} else if c == inStr {
				inStr = 0
			}
			continue
		}
		switch c {
		case '"', '\'', '`':
			inStr = c
		case '(', '[', '{':
			depth++
		case ')', ']', '}':
			depth--
		case '=':
			if depth == 0 && strings.HasPrefix(src[i:], "==>") {
				return "imp(" + preprocessInner(src[:i]) + ", " + preprocess(src[i+3:]) + ")"
			}
		}
	}
	return preprocessInner(src)
}

// preprocessInner handles ==> nested inside parentheses / call arguments.
func preprocessInner(src string) string {
	if !strings.Contains(src, "==>") {
		return src
	}
	// find parenthesised / argument groups containing ==> and rewrite them recursively
	var out strings.Builder
	i := 0
	for i < len(src) {
		c := src[i]
		if c == '"' || c == '\'' || c == '`' {
			j := i + 1
			for j < len(src) && src[j] != c {
				if src[j] == '\\' {
					j++
				}
				j++
			}
			out.WriteString(src[i:min(j+1, len(src))])
			i = j + 1
			continue
		}
		if c == '(' || c == '[' {
			// find matching close
			depth := 0
			j := i
			for ; j < len(src); j++ {
				if src[j] == '(' || src[j] == '[' {
					depth++
				} else if src[j] == ')' || src[j] == ']' {
					depth--
					if depth == 0 {
						break
					}
				}
			}
			inner := src[i+1 : j]
			// split inner at top-level commas
			parts := splitTop(inner, ',')
			for k := range parts {
				parts[k] = preprocess(parts[k])
			}
			out.WriteByte(c)
			out.WriteString(strings.Join(parts, ","))
			if j < len(src) {
				out.WriteByte(src[j])
			}
			i = j + 1
			continue
		}
		out.WriteByte(c)
		i++
	}
	return out.String()
}

func splitTop(s string, sep byte) []string {
	var parts []string
	depth := 0
	inStr := byte(0)
	last := 0
	for i := 0; i < len(s); i++ {
		c := s[i]
		if inStr != 0 {
			if c == '\\' {
				i++
			} else if c == inStr {
				inStr = 0
			}
			continue
		}
		switch c {
		case '"', '\'', '`':
			inStr = c
		case '(', '[', '{':
			depth++
		case ')', ']', '}':
			depth--
		default:
			if c == sep && depth == 0 {
				parts = append(parts, s[last:i])
				last = i + 1
			}
		}
	}
	parts = append(parts, s[last:])
	return parts
}

func parseSpecExpr(src string) (ast.Expr, error) {
	e, err := parser.ParseExpr(preprocess(src))
	if err != nil {
		return nil, fmt.Errorf("spec expression %q: %v", src, err)
	}
	return e, nil
}

func (sp *Specs) clause(rest, where string, defProps []string) (*Clause, error) {
	c := &Clause{Where: where}
	for {
		if m := labelRe.FindStringSubmatch(rest); m != nil {
			c.Label = m[1]
			rest = rest[len(m[0]):]
			continue
		}
		if m := propsRe.FindStringSubmatch(rest); m != nil {
			for _, p := range strings.Split(m[1], ",") {
				c.Props = append(c.Props, strings.TrimSpace(p))
			}
			rest = rest[len(m[0]):]
			continue
		}
		break
	}
	c.Src = rest
	e, err := parseSpecExpr(rest)
	if err != nil {
		return nil, fmt.Errorf("%s: %v", where, err)
	}
	c.Expr = e
	return c, nil
}

// LoadSpecFile reads //@ lines (the prefix is optional in .spec files).
func (sp *Specs) LoadSpecFile(path string) error {
	f, err := os.Open(path)
	if err != nil {
		return err
	}
	defer f.Close()
	isGo := strings.HasSuffix(path, ".go")
	sc := bufio.NewScanner(f)
	sc.Buffer(make([]byte, 1<<20), 1<<20)
	var cur *Contract
	lineNo := 0
	var pending string
	var pendingLine int
	flush := func() error {
		if pending == "" {
			return nil
		}
		line := pending
		pending = ""
		return sp.directive(line, fmt.Sprintf("%s:%d", filepath.Base(path), pendingLine), &cur)
	}
	for sc.Scan() {
		lineNo++
		raw := sc.Text()
		line := strings.TrimSpace(raw)
		if isGo {
			if !strings.HasPrefix(line, "//@") {
				continue
			}
			line = strings.TrimSpace(line[3:])
		} else {
			if strings.HasPrefix(line, "//@") {
				line = strings.TrimSpace(line[3:])
			}
			if line == "" || strings.HasPrefix(line, "#") || strings.HasPrefix(line, "//") {
				continue
			}
		}
		if line == "" {
			continue
		}
		// continuation lines start with '+'
		if strings.HasPrefix(line, "+") {
			pending += " " + strings.TrimSpace(line[1:])
			continue
		}
		if err := flush(); err != nil {
			return err
		}
		pending = line
		pendingLine = lineNo
	}
	if err := flush(); err != nil {
		return err
	}
	return sc.Err()
}

// resolveRefines copies the clauses of refined contracts into the refining ones.
func (sp *Specs) resolveRefines() error {
	for _, k := range sp.Order {
		c := sp.Contracts[k]
		if c.Refines == "" {
			continue
		}
		base := sp.Contracts[c.Refines]
		if base == nil {
			return fmt.Errorf("%s: refines unknown contract %s", c.Where, c.Refines)
		}
		c.Requires = append(append([]*Clause{}, base.Requires...), c.Requires...)
		c.Ensures = append(append([]*Clause{}, base.Ensures...), c.Ensures...)
		c.Exsures = append(append([]*Clause{}, base.Exsures...), c.Exsures...)
		c.AnyPanic = c.AnyPanic || base.AnyPanic
		if len(c.Modifies) == 0 {
			c.Modifies = base.Modifies
		}
		if base.NoPanic {
			c.NoPanic = true
		}
		if len(c.Params) == 0 {
			c.Params = base.Params
		}
		if len(c.Props) == 0 {
			c.Props = base.Props
		}
	}
	return nil
}

func (sp *Specs) directive(line, where string, cur **Contract) error {
	word, rest := line, ""
	if i := strings.IndexAny(line, " \t"); i >= 0 {
		word, rest = line[:i], strings.TrimSpace(line[i+1:])
	}
	switch word {
	case "sort":
		sp.Sorts = append(sp.Sorts, rest)
		*cur = nil
	case "modset":
		k := strings.Index(rest, ":=")
		if k < 0 {
			return fmt.Errorf("%s: modset NAME := entries", where)
		}
		sp.ModSets[strings.TrimSpace(rest[:k])] = strings.TrimSpace(rest[k+2:])
		*cur = nil
	case "ghost":
		// ghost Name Type
		parts := strings.SplitN(rest, " ", 2)
		if len(parts) != 2 {
			return fmt.Errorf("%s: ghost Name Type", where)
		}
		parts[1] = strings.TrimSpace(parts[1])
		sp.Ghosts[parts[0]] = &GhostVar{parts[0], parts[1]}
		sp.GhostOrd = append(sp.GhostOrd, parts[0])
		*cur = nil
	case "ufunc":
		// ufunc Name(T1, T2) R
		i := strings.Index(rest, "(")
		j := strings.LastIndex(rest, ")")
		if i < 0 || j < i {
			return fmt.Errorf("%s: bad ufunc", where)
		}
		u := &UFunc{Name: strings.TrimSpace(rest[:i]), RType: strings.TrimSpace(rest[j+1:])}
		for _, p := range splitTop(rest[i+1:j], ',') {
			p = strings.TrimSpace(p)
			if p != "" {
				u.PTypes = append(u.PTypes, p)
			}
		}
		sp.UFuncs[u.Name] = u
		*cur = nil
	case "pred":
		// pred Name(a T, b U) := expr
		k := strings.Index(rest, ":=")
		if k < 0 {
			return fmt.Errorf("%s: pred needs :=", where)
		}
		head, body := strings.TrimSpace(rest[:k]), strings.TrimSpace(rest[k+2:])
		i := strings.Index(head, "(")
		j := strings.LastIndex(head, ")")
		if i < 0 || j < i {
			return fmt.Errorf("%s: bad pred head", where)
		}
		p := &PredDef{Name: strings.TrimSpace(head[:i]), Src: body}
		for _, prm := range splitTop(head[i+1:j], ',') {
			prm = strings.TrimSpace(prm)
			if prm == "" {
				continue
			}
			f := strings.SplitN(prm, " ", 2)
			if len(f) != 2 {
				return fmt.Errorf("%s: pred param %q needs a type", where, prm)
			}
			p.Params = append(p.Params, f[0])
			p.PTypes = append(p.PTypes, strings.TrimSpace(f[1]))
		}
		e, err := parseSpecExpr(body)
		if err != nil {
			return fmt.Errorf("%s: %v", where, err)
		}
		p.Body = e
		sp.Preds[p.Name] = p
		*cur = nil
	case "axiom":
		c, err := sp.clause(rest, where, nil)
		if err != nil {
			return err
		}
		sp.Axioms = append(sp.Axioms, c)
		*cur = nil
	case "guard":
		// guard T.f by <lock expr over self>   |   guard global name by <lock expr>
		k := strings.Index(rest, " by ")
		if k < 0 {
			return fmt.Errorf("%s: guard TARGET by LOCKEXPR", where)
		}
		g := &GuardRule{Target: strings.TrimSpace(rest[:k]), Src: strings.TrimSpace(rest[k+4:]), Where: where}
		if strings.HasPrefix(g.Target, "global ") {
			g.Global = true
			g.Target = strings.TrimSpace(g.Target[7:])
		}
		e, err := parseSpecExpr(g.Src)
		if err != nil {
			return fmt.Errorf("%s: %v", where, err)
		}
		g.Lock = e
		sp.Guards = append(sp.Guards, g)
		*cur = nil
	case "immutable":
		// immutable {props} global NAME: the package variable is written only by package initialisation; the
		// engine then treats its value as one constant (and generates the scan that justifies it)
		fr := &FrameRule{Where: where, Kind: "stores-global", Allow: []string{"init", "init#1"}}
		if m := propsRe.FindStringSubmatch(rest); m != nil {
			for _, p := range strings.Split(m[1], ",") {
				fr.Props = append(fr.Props, strings.TrimSpace(p))
			}
			rest = rest[len(m[0]):]
		}
		hd := strings.Fields(rest)
		if len(hd) != 2 || hd[0] != "global" {
			return fmt.Errorf("%s: immutable [{props}] global NAME", where)
		}
		fr.Target = hd[1]
		if !strings.Contains(hd[1], ".") {
			// (variables of other packages, e.g. ioutil.Discard: no code of this repository can be scanned for them)
			sp.Frames = append(sp.Frames, fr)
		}
		if sp.Immutable == nil {
			sp.Immutable = map[string]bool{}
		}
		sp.Immutable[hd[1]] = true
		*cur = nil
	case "frame":
		// frame stores Type.field only-in f1, f2 ... [props]
		fr := &FrameRule{Where: where}
		if m := propsRe.FindStringSubmatch(rest); m != nil {
			for _, p := range strings.Split(m[1], ",") {
				fr.Props = append(fr.Props, strings.TrimSpace(p))
			}
			rest = rest[len(m[0]):]
		}
		parts := strings.SplitN(rest, " only-in ", 2)
		if len(parts) != 2 {
			return fmt.Errorf("%s: frame KIND Target only-in f1, f2", where)
		}
		hd := strings.Fields(parts[0])
		if len(hd) != 2 {
			return fmt.Errorf("%s: frame KIND Target only-in ...", where)
		}
		fr.Kind, fr.Target = hd[0], hd[1]
		for _, a := range strings.Split(parts[1], ",") {
			a = strings.TrimSpace(a)
			if a != "" {
				fr.Allow = append(fr.Allow, a)
			}
		}
		sp.Frames = append(sp.Frames, fr)
		*cur = nil
	case "func":
		c := &Contract{Key: rest, Loops: map[int]*LoopSpec{}, Where: where}
		if old, ok := sp.Contracts[rest]; ok {
			return fmt.Errorf("%s: duplicate contract for %s (first at %s)", where, rest, old.Where)
		}
		sp.Contracts[rest] = c
		sp.Order = append(sp.Order, rest)
		*cur = c
	default:
		c := *cur
		if c == nil {
			return fmt.Errorf("%s: clause %q outside of a func contract", where, word)
		}
		switch word {
		case "props":
			c.Props = strings.Fields(strings.ReplaceAll(rest, ",", " "))
		case "params":
			for _, p := range strings.Split(rest, ",") {
				c.Params = append(c.Params, strings.TrimSpace(p))
			}
		case "requires", "ensures", "exsures", "decreases", "check", "assumes":
			cl, err := sp.clause(rest, where, c.Props)
			if err != nil {
				return err
			}
			switch word {
			case "requires":
				c.Requires = append(c.Requires, cl)
			case "ensures":
				c.Ensures = append(c.Ensures, cl)
			case "check":
				c.Checks = append(c.Checks, cl)
			case "exsures":
				c.Exsures = append(c.Exsures, cl)
			case "assumes":
				c.Assumes = append(c.Assumes, cl)
			case "decreases":
				c.Decr = cl
			}
		case "loop":
			// loop K invariant E | loop K decreases E
			f := strings.SplitN(rest, " ", 3)
			if len(f) < 3 {
				return fmt.Errorf("%s: loop K invariant|decreases E", where)
			}
			k, err := strconv.Atoi(f[0])
			if err != nil {
				return fmt.Errorf("%s: loop ordinal: %v", where, err)
			}
			ls := c.Loops[k]
			if ls == nil {
				ls = &LoopSpec{}
				c.Loops[k] = ls
			}
			cl, err := sp.clause(strings.TrimSpace(f[2]), where, c.Props)
			if err != nil {
				return err
			}
			switch f[1] {
			case "invariant":
				ls.Invariants = append(ls.Invariants, cl)
			case "decreases":
				ls.Decreases = cl
			case "monotone":
				ls.Monotone = append(ls.Monotone, cl)
			case "entry":
				ls.Entry = append(ls.Entry, cl)
			case "step":
				ls.Steps = append(ls.Steps, cl)
			default:
				return fmt.Errorf("%s: loop clause %q", where, f[1])
			}
		case "nocrash":
			c.NoCrash = true
		case "callsite":
			// callsite <callee key> <ordinal|*> requires E     |   callsite <callee key> count N
			var cs *CallSiteSpec
			if i := strings.Index(rest, " requires "); i >= 0 {
				hd := strings.Fields(rest[:i])
				if len(hd) < 2 {
					return fmt.Errorf("%s: callsite KEY N requires E", where)
				}
				cs = &CallSiteSpec{Callee: strings.Join(hd[:len(hd)-1], " "), Which: -1, Count: -1, Where: where}
				if hd[len(hd)-1] != "*" {
					n, err := strconv.Atoi(hd[len(hd)-1])
					if err != nil {
						return fmt.Errorf("%s: callsite ordinal: %v", where, err)
					}
					cs.Which = n
				}
				cl, err := sp.clause(strings.TrimSpace(rest[i+10:]), where, c.Props)
				if err != nil {
					return err
				}
				cs.Clause = cl
			} else if i := strings.Index(rest, " count "); i >= 0 {
				tail := strings.TrimSpace(rest[i+7:])
				var cprops []string
				if j := strings.Index(tail, "{"); j >= 0 && strings.HasSuffix(tail, "}") {
					for _, p := range strings.Split(tail[j+1:len(tail)-1], ",") {
						cprops = append(cprops, strings.TrimSpace(p))
					}
					tail = strings.TrimSpace(tail[:j])
				}
				n, err := strconv.Atoi(tail)
				if err != nil {
					return fmt.Errorf("%s: callsite count: %v", where, err)
				}
				cs = &CallSiteSpec{Callee: strings.TrimSpace(rest[:i]), Which: -1, Count: n, Where: where, Props: cprops}
			} else {
				return fmt.Errorf("%s: callsite KEY N requires E | callsite KEY count N", where)
			}
			c.CallSites = append(c.CallSites, cs)
		case "modifies":
			for name, body := range sp.ModSets {
				rest = strings.ReplaceAll(rest, "@"+name, body)
			}
			for _, m := range splitTop(rest, ',') {
				m = strings.TrimSpace(m)
				if m == "" {
					continue
				}
				me, err := parseModEntry(m)
				if err != nil {
					return fmt.Errorf("%s: %v", where, err)
				}
				c.Modifies = append(c.Modifies, me)
			}
		case "refines":
			c.Refines = rest
		case "nopanic":
			c.NoPanic = true
		case "anypanic":
			// may panic with a value of any type (user code, or code that lets user code's panics through);
			// without it a function only ever panics with a non-runtime error value
			c.AnyPanic = true
		case "noreturn":
			c.NoReturn = true
		case "trusted":
			c.Trusted = true
			c.Reason = rest
		case "inline":
			c.Inline = true
		case "pure":
			c.Pure = true
		case "fresh":
			c.Fresh = append(c.Fresh, strings.Fields(strings.ReplaceAll(rest, ",", " "))...)
		default:
			return fmt.Errorf("%s: unknown clause %q", where, word)
		}
	}
	return nil
}

func parseModEntry(m string) (*ModEntry, error) {
	me := &ModEntry{Src: m}
	if m == "*" {
		me.Kind = "all"
		return me, nil
	}
	if strings.HasPrefix(m, "ghost ") {
		me.Kind = "ghost"
		me.Ghost = strings.TrimSpace(m[6:])
		return me, nil
	}
	if strings.HasPrefix(m, "type ") {
		// type T.f
		tf := strings.TrimSpace(m[5:])
		i := strings.LastIndex(tf, ".")
		if i < 0 {
			return nil, fmt.Errorf("modifies type T.f: %q", m)
		}
		me.Kind = "type"
		me.Type, me.Field = tf[:i], tf[i+1:]
		return me, nil
	}
	if strings.HasPrefix(m, "elems ") {
		e, err := parseSpecExpr(strings.TrimSpace(m[6:]))
		if err != nil {
			return nil, err
		}
		me.Kind, me.Expr = "elems", e
		return me, nil
	}
	if strings.HasPrefix(m, "map ") {
		e, err := parseSpecExpr(strings.TrimSpace(m[4:]))
		if err != nil {
			return nil, err
		}
		me.Kind, me.Expr = "map", e
		return me, nil
	}
	if strings.HasPrefix(m, "mapsof ") {
		me.Kind = "mapsof"
		me.Type = strings.TrimSpace(m[7:])
		return me, nil
	}
	if strings.HasPrefix(m, "global ") {
		me.Kind = "global"
		me.Ghost = strings.TrimSpace(m[7:])
		return me, nil
	}
	if strings.HasPrefix(m, "sent ") {
		e, err := parseSpecExpr(strings.TrimSpace(m[5:]))
		if err != nil {
			return nil, err
		}
		me.Kind, me.Expr = "sent", e
		return me, nil
	}
	if strings.HasPrefix(m, "cell ") {
		e, err := parseSpecExpr(strings.TrimSpace(m[5:]))
		if err != nil {
			return nil, err
		}
		me.Kind, me.Expr = "cell", e
		return me, nil
	}
	// point: expr.field
	e, err := parseSpecExpr(m)
	if err != nil {
		return nil, err
	}
	se, ok := e.(*ast.SelectorExpr)
	if !ok {
		return nil, fmt.Errorf("modifies entry %q must be expr.field, type T.f, ghost G, elems e, map e, cell e or *", m)
	}
	me.Kind, me.Expr, me.Field = "point", se.X, se.Sel.Name
	return me, nil
}
