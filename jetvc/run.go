package main

import (
	"sync/atomic"
	"bytes"
	"context"
	"fmt"
	"os"
	"os/exec"
	"path/filepath"
	"regexp"
	"strings"
	"sync"
	"time"
)

type solverSpec struct {
	name string
	argv func(file string, timeoutMs int) []string
	pre  func(script string) string
}

var solvers = []solverSpec{
	{"z3-new-5.1.0", func(file string, ms int) []string {
		return []string{"z3-new", "-smt2", "smt.mbqi=false", fmt.Sprintf("-t:%d", ms), file}
	}, nil},
	{"z3-4.8.12", func(file string, ms int) []string {
		return []string{"/usr/bin/z3", "-smt2", "smt.mbqi=false", fmt.Sprintf("-t:%d", ms), file}
	}, nil},
	{"cvc5-1.0", func(file string, ms int) []string {
		return []string{"cvc5", "--incremental", fmt.Sprintf("--tlimit-per=%d", ms), file}
	}, nil},
}

// incrementalScript renders the whole unit as one push/pop script.
const coverTimeoutMs = 1500

var ufSym = regexp.MustCompile(`uf_[A-Za-z0-9_]+`)

// relevantAxioms selects the spec axioms that mention an uninterpreted symbol used by the unit
// (transitively through the selected axioms).
func (u *Unit) relevantAxioms() string {
	used := map[string]bool{}
	for _, l := range u.Script.lines {
		for _, m := range ufSym.FindAllString(l, -1) {
			used[m] = true
		}
	}
	for _, o := range u.Script.obls {
		for _, m := range ufSym.FindAllString(o.Goal.S+" "+o.Reach.S, -1) {
			used[m] = true
		}
	}
	picked := make([]bool, len(u.Script.axioms))
	for changed := true; changed; {
		changed = false
		for i, ax := range u.Script.axioms {
			if picked[i] {
				continue
			}
			syms := ufSym.FindAllString(ax, -1)
			hit := len(syms) == 0
			for _, m := range syms {
				if used[m] {
					hit = true
				}
			}
			if hit {
				picked[i] = true
				changed = true
				for _, m := range syms {
					used[m] = true
				}
			}
		}
	}
	var b strings.Builder
	for i, ax := range u.Script.axioms {
		if picked[i] {
			b.WriteString(ax)
			b.WriteString("\n")
		}
	}
	return b.String()
}

func (u *Unit) incrementalScript() string {
	var b strings.Builder
	b.WriteString(u.Preamble)
	fmt.Fprintf(&b, "(set-option :timeout %d)\n", u.timeoutMs)
	sc := u.Script
	oi := 0
	axioms := u.relevantAxioms()
	for i := 0; i <= len(sc.lines); i++ {
		if i == sc.axiomPos {
			b.WriteString(axioms)
		}
		for oi < len(sc.obls) && sc.obls[oi].Index == i {
			o := sc.obls[oi]
			b.WriteString("(push 1)\n")
			if o.Cover {
				fmt.Fprintf(&b, "(set-option :timeout %d)\n(assert %s)\n", coverTimeoutMs, o.Reach.S)
			} else {
				fmt.Fprintf(&b, "(assert (and %s (not %s)))\n", o.Reach.S, o.Goal.S)
			}
			fmt.Fprintf(&b, "(echo \"@@%d\")\n(check-sat)\n(pop 1)\n", oi)
			if o.Cover {
				fmt.Fprintf(&b, "(set-option :timeout %d)\n", u.timeoutMs)
			}
			oi++
		}
		if i < len(sc.lines) {
			b.WriteString(sc.lines[i])
			b.WriteString("\n")
		}
	}
	return b.String()
}

// standaloneScript renders one obligation as a self-contained query.
func (u *Unit) standaloneScript(oi int, model bool) string {
	var b strings.Builder
	b.WriteString(u.Preamble)
	o := u.Script.obls[oi]
	axioms := u.relevantAxioms()
	for i := 0; i < o.Index; i++ {
		if i == u.Script.axiomPos {
			b.WriteString(axioms)
		}
		b.WriteString(u.Script.lines[i])
		b.WriteString("\n")
	}
	if o.Cover {
		fmt.Fprintf(&b, "(assert %s)\n", o.Reach.S)
	} else {
		fmt.Fprintf(&b, "(assert (and %s (not %s)))\n", o.Reach.S, o.Goal.S)
	}
	b.WriteString("(check-sat)\n")
	if model {
		b.WriteString("(get-model)\n")
	}
	return b.String()
}

func runSolver(s solverSpec, file string, timeoutMs int) (string, float64, error) {
	ctx, cancel := context.WithTimeout(context.Background(), time.Duration(timeoutMs)*time.Millisecond*4+10*time.Second)
	defer cancel()
	argv := s.argv(file, timeoutMs)
	cmd := exec.CommandContext(ctx, argv[0], argv[1:]...)
	var out bytes.Buffer
	cmd.Stdout = &out
	cmd.Stderr = &out
	t0 := time.Now()
	err := cmd.Run()
	dt := time.Since(t0).Seconds()
	if ctx.Err() != nil {
		return out.String(), dt, fmt.Errorf("killed after %v", dt)
	}
	_ = err // z3 exits 1 on (error ...) lines; output is still parsed
	return out.String(), dt, nil
}

// dischargeUnit runs the incremental script on the primary solver, then races the
// others on whatever is left.
// skipRace: obligations known not to discharge (known findings, tolerated undecided ones); they are not raced.
var skipRace = map[string]bool{}

func (u *Unit) discharge(outDir string, timeoutMs int, thorough bool) {
	if u.Script == nil || len(u.Script.obls) == 0 {
		return
	}
	u.timeoutMs = timeoutMs
	base := filepath.Join(outDir, mangle(u.Key))
	file := base + ".smt2"
	u.File = file
	if err := os.WriteFile(file, []byte(u.incrementalScript()), 0o644); err != nil {
		panic(err)
	}
	out, dt, err := runSolver(solvers[0], file, timeoutMs)
	u.PrimaryS = dt
	results := parseIncremental(out, len(u.Script.obls))
	per := dt / float64(len(u.Script.obls))
	for i, o := range u.Script.obls {
		r := results[i]
		if err != nil && r == "" {
			r = "timeout"
		}
		o.Result, o.Backend, o.TimeS = r, solvers[0].name, per
		if o.Cover {
			// cover: sat is good; unsat means vacuous
			continue
		}
	}
	// retry what the primary solver could not settle
	var wg sync.WaitGroup
	sem := make(chan struct{}, 8)
	for i, o := range u.Script.obls {
		need := false
		if o.Cover {
			need = false // only "unsat" (vacuity) is a failure; unknown is accepted for quantified theories
		} else {
			need = o.Result != "unsat"
		}
		if !need || skipRace[o.Name] {
			continue
		}
		wg.Add(1)
		go func(i int, o *Obligation) {
			defer wg.Done()
			sem <- struct{}{}
			defer func() { <-sem }()
			u.race(i, o, base, timeoutMs)
		}(i, o)
	}
	wg.Wait()
}

func parseIncremental(out string, n int) []string {
	res := make([]string, n)
	cur := -1
	for _, line := range strings.Split(out, "\n") {
		line = strings.TrimSpace(line)
		if strings.HasPrefix(line, "\"@@") || strings.HasPrefix(line, "@@") {
			s := strings.Trim(line, "\"@")
			fmt.Sscanf(s, "%d", &cur)
			continue
		}
		if cur >= 0 && cur < n && res[cur] == "" {
			switch {
			case line == "sat", line == "unsat", line == "unknown":
				res[cur] = line
			case strings.HasPrefix(line, "(error"):
				res[cur] = "error: " + line
			case line == "timeout":
				res[cur] = "timeout"
			}
		}
	}
	return res
}

// race runs the standalone query on all solvers and takes the first decisive answer.
// loadRetries: how many obligations of this process may be raced a second time with a four times longer time limit
// after every solver ran into the limit (a loaded machine must not turn a proof into an alarm)
var loadRetries int32 = 6

func (u *Unit) race(i int, o *Obligation, base string, timeoutMs int) {
	u.raceOnce(i, o, base, timeoutMs)
	want := "unsat"
	if o.Cover {
		want = "sat"
	}
	if o.Result != want && o.Result != "sat" && o.Result != "unsat" && o.timedOut && atomic.AddInt32(&loadRetries, -1) >= 0 {
		first := o.Detail
		o.Detail = ""
		u.raceOnce(i, o, base, timeoutMs*4)
		o.Detail = first + " retried with 4x time limit:" + o.Detail
	}
}

func (u *Unit) raceOnce(i int, o *Obligation, base string, timeoutMs int) {
	file := fmt.Sprintf("%s.o%d.smt2", base, i)
	if err := os.WriteFile(file, []byte(u.standaloneScript(i, true)), 0o644); err != nil {
		panic(err)
	}
	type ans struct {
		solver string
		res    string
		out    string
		dt     float64
	}
	ch := make(chan ans, len(solvers))
	for _, s := range solvers {
		go func(s solverSpec) {
			out, dt, err := runSolver(s, file, timeoutMs)
			first := ""
			for _, l := range strings.Split(out, "\n") {
				l = strings.TrimSpace(l)
				if l == "sat" || l == "unsat" || l == "unknown" || l == "timeout" {
					first = l
					break
				}
				if strings.HasPrefix(l, "(error") && first == "" {
					first = "error: " + l
					break
				}
			}
			if err != nil && first == "" {
				first = "timeout"
			}
			if first == "" {
				first = "unknown"
			}
			ch <- ans{s.name, first, out, dt}
		}(s)
	}
	want := "unsat"
	if o.Cover {
		want = "sat"
	}
	var best *ans
	var all []string
	o.timedOut = false
	for range solvers {
		a := <-ch
		all = append(all, a.solver+"="+a.res)
		if a.dt*1000 >= 0.8*float64(timeoutMs) {
			o.timedOut = true
		}
		a2 := a
		if a.res == want {
			best = &a2
			break
		}
		if (a.res == "sat" || a.res == "unsat") && (best == nil || (best.res != "sat" && best.res != "unsat")) {
			best = &a2
		} else if best == nil {
			best = &a2
		}
	}
	o.Result, o.Backend, o.TimeS = best.res, best.solver, best.dt
	o.Detail += " [" + strings.Join(all, " ") + "]"
	if best.res == "sat" && !o.Cover {
		o.Model = extractModel(best.out)
	}
}

func extractModel(out string) string {
	i := strings.Index(out, "(")
	if i < 0 {
		return ""
	}
	m := out[i:]
	if len(m) > 20000 {
		m = m[:20000] + "\n...truncated..."
	}
	return m
}
