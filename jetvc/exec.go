package main

import (
	"fmt"
	"go/token"
	"go/types"
	"os"
	"sort"
	"strings"

	"golang.org/x/tools/go/ssa"
)

// unsupported is raised (as a Go panic inside the engine) when a function leaves the
// supported subset; the function is then reported as not verified.
type unsupported struct{ msg string }

func unsupp(format string, args ...interface{}) {
	panic(unsupported{fmt.Sprintf(format, args...)})
}

type edge struct {
	cond  Term
	state *State
}

type retEdge struct {
	cond    Term
	state   *State
	results []Val
	pos     token.Pos
	block   *ssa.BasicBlock // the block and instruction index of the return statement (nil for synthesized returns)
	idx     int
}

// (fx.matchedSites: call-site clauses that applied to at least one call of the unit)

type panicEdge struct {
	cond  Term
	state *State
	pval  Term // Iface
	what  string
	pos   token.Pos
}

type deferRec struct {
	instr *ssa.Defer
	key   string
	args  []Val
	fnv   Val
	ord   int
}

type loopInfo struct {
	head   *ssa.BasicBlock
	ord    int
	body   map[*ssa.BasicBlock]bool
	spec   *LoopSpec
	decr0  Term
	hasDec bool
	mono0  []Term
	headState *State
	headPhis  map[*ssa.Phi]Val
	phiOld map[*ssa.Phi]Term
	// state at head after havoc (for naming only)
}

// fx executes one SSA function body symbolically (top-level or inlined).
type fx struct {
	e        *Engine
	sc       *Script
	fn       *ssa.Function
	top      *fx
	parent   *fx
	depth    int
	vals     map[ssa.Value]Val
	contract *Contract // contract of the top-level function
	matchedSites map[*CallSiteSpec]bool

	in        map[*ssa.BasicBlock][]*edge // per predecessor index
	loops     map[*ssa.BasicBlock]*loopInfo
	cur       *State
	curReach  Term
	curBlock  *ssa.BasicBlock
	curIdx    int // index of the instruction being executed in curBlock (-1: at block entry)
	returns   []*retEdge
	panics    []*panicEdge // raised in the body (before defers)
	panicsOut []*panicEdge // leaving the function
	defers    []*deferRec
	inPanic   bool

	// top-level only
	entry       *State
	entryAlloc  Term
	epochConsts map[string]Term
	nextEpoch   int
	counters    map[string]int
	assumptions map[string]bool
	params      map[string]TV
	siteOrds    map[string]map[token.Pos]int // callee key -> static call site -> ordinal by source position
	freeVars    []Val
	srcLines    map[string][]string
	epochAlloc  map[int]Term
	arrBound    map[string]Term // fresh heap array constant -> allocation counter when it was introduced
	nameMap     map[string][]ssa.Value
	topEnv      *Env
	litStrs     map[string]string
	rangeOf     map[*ssa.Range]ssa.Value
}

func (f *fx) note(a string) { f.top.assumptions[a] = true }

func (f *fx) ordinal(k string) int {
	n := f.top.counters[k]
	f.top.counters[k] = n + 1
	return n
}

// ---------------------------------------------------------------------------
// state access

func keySort(e *Engine, key string) string {
	if s, ok := e.keySorts[key]; ok {
		return s
	}
	panic("no sort registered for state key " + key)
}

func (f *fx) regKey(key, sortName string) {
	if old, ok := f.e.keySorts[key]; ok && old != sortName {
		panic(fmt.Sprintf("state key %s registered with sorts %s and %s", key, old, sortName))
	}
	f.e.keySorts[key] = sortName
}

func isHeapKey(k string) bool {
	return !(strings.HasPrefix(k, "L:") || strings.HasPrefix(k, "E:"))
}

type stateMeta struct{ epoch int }

var stateEpoch = map[*State]int{}

func (f *fx) get(st *State, key string) Term {
	if t, ok := st.m[key]; ok {
		return t
	}
	srt := keySort(f.e, key)
	ep := 0
	if isHeapKey(key) && !f.immutableKey(key) {
		ep = stateEpoch[st]
	}
	ck := fmt.Sprintf("%d|%s", ep, key)
	t, ok := f.top.epochConsts[ck]
	if !ok {
		if strings.HasPrefix(key, "L:") {
			t = f.e.sorts.zero(srt)
		} else if strings.HasPrefix(key, "E:defer") || key == "E:recovered" {
			t = tFalse
		} else if strings.HasPrefix(key, "E:ncalls:") || strings.HasPrefix(key, "E:visits:") {
			t = intLit(0)
		} else {
			t = f.sc.fresh(fmt.Sprintf("%s@%d", key, ep), srt)
			if a, ok := f.top.epochAlloc[ep]; ok {
				f.refBound(key, t, a)
			}
		}
		f.top.epochConsts[ck] = t
	}
	st.m[key] = t
	return t
}

// immutableKey: package variables declared immutable have one value for the whole unit.
func (f *fx) immutableKey(key string) bool {
	if !strings.HasPrefix(key, "G:") {
		return false
	}
	for n := range f.e.specs.Immutable {
		if key == "G:"+mangle("jet."+n) || (strings.Contains(n, ".") && key == "G:"+mangle(n)) {
			return true
		}
	}
	return false
}

// refBound states that every reference stored in a freshly introduced heap array is already allocated.
func (f *fx) refBound(key string, arr Term, alloc Term) {
	if true {
		// quantifier-free variant: the bound is kept per array term and assumed at load sites (see loadBound)
		if f.e.keyIsRef[key] {
			f.top.arrBound[arr.S] = alloc
		}
		return
	}
	if !f.e.keyIsRef[key] {
		return
	}
	// only for objects that are already allocated: the value of a field at a not-yet-allocated reference
	// stands for what a callee that allocates the object will have stored there when it returns
	f.sc.assert(T("Bool", "(forall ((r Int)) (! (=> (and (< 0 r) (<= r %s)) (and (<= 0 (select %s r)) (<= (select %s r) %s))) :pattern ((select %s r))))", alloc.S, arr.S, arr.S, alloc.S, arr.S))
}

// freshHeap introduces a fresh value for a whole state key.
func (f *fx) freshHeap(key, tag string, alloc Term) Term {
	t := f.sc.fresh(key+tag, keySort(f.e, key))
	f.refBound(key, t, alloc)
	return t
}

func (f *fx) set(st *State, key string, v Term) {
	if srt := keySort(f.e, key); srt != v.Sort {
		panic(fmt.Sprintf("state key %s has sort %s, assigned %s (%s)", key, srt, v.Sort, v.S))
	}
	st.m[key] = v
}

func (f *fx) cloneState(st *State) *State {
	n := st.clone()
	stateEpoch[n] = stateEpoch[st]
	return n
}

// havocAll forgets everything about the heap, globals and ghosts.
func (f *fx) havocAll(st *State) *State {
	n := &State{m: map[string]Term{}}
	for k, v := range st.m {
		if !isHeapKey(k) || k == "X:Held" {
			// locks: every function returns with exactly the locks it was entered with (proved for all lock users)
			n.m[k] = v
		}
	}
	f.top.nextEpoch++
	stateEpoch[n] = f.top.nextEpoch
	return n
}

// epochOf returns the epoch of a state (used to attach the allocation bound of a havoc).
func epochOf(st *State) int { return stateEpoch[st] }

// mergeStates builds the state at a join point.
func (f *fx) mergeStates(edges []*edge) (*State, Term) {
	var live []*edge
	for _, e := range edges {
		if e != nil && e.cond.S != "false" {
			live = append(live, e)
		}
	}
	if len(live) == 0 {
		st := f.cloneState(f.top.entry)
		return st, tFalse
	}
	if len(live) == 1 {
		return f.cloneState(live[0].state), live[0].cond
	}
	conds := make([]Term, len(live))
	for i, e := range live {
		conds[i] = e.cond
	}
	reach := f.sc.define("reach", or(conds...))
	keys := map[string]bool{}
	sameEpoch := true
	for _, e := range live {
		for k := range e.state.m {
			keys[k] = true
		}
		if stateEpoch[e.state] != stateEpoch[live[0].state] {
			sameEpoch = false
		}
	}
	n := &State{m: map[string]Term{}}
	if sameEpoch {
		stateEpoch[n] = stateEpoch[live[0].state]
	} else {
		f.top.nextEpoch++
		stateEpoch[n] = f.top.nextEpoch
	}
	ks := make([]string, 0, len(keys))
	for k := range keys {
		ks = append(ks, k)
	}
	sort.Strings(ks)
	for _, k := range ks {
		first := f.get(live[0].state, k)
		same := true
		for _, e := range live[1:] {
			if f.get(e.state, k).S != first.S {
				same = false
				break
			}
		}
		if same {
			n.m[k] = first
			continue
		}
		c := f.sc.fresh(k+"@m", first.Sort)
		for _, e := range live {
			f.sc.assert(implies(e.cond, eq(c, f.get(e.state, k))))
		}
		n.m[k] = c
	}
	return n, reach
}

// ---------------------------------------------------------------------------
// memory

func (f *fx) structName(t types.Type) string {
	return mangle(shortTypeName(t))
}

func (f *fx) fieldKey(structT types.Type, i int) string {
	st := structT.Underlying().(*types.Struct)
	key := "H:" + f.structName(structT) + "." + st.Field(i).Name()
	f.regKey(key, arraySort("Int", f.e.sorts.sortOf(st.Field(i).Type())))
	switch st.Field(i).Type().Underlying().(type) {
	case *types.Pointer, *types.Map, *types.Chan:
		f.e.keyIsRef[key] = true
	}
	return key
}

func (f *fx) cellKey(t types.Type) string {
	s := f.e.sorts.sortOf(t)
	key := "C:" + s
	f.regKey(key, arraySort("Int", s))
	return key
}

func (f *fx) backingKey(elem types.Type) string {
	s := f.e.sorts.sortOf(elem)
	key := "B:" + s
	f.regKey(key, arraySort("Int", arraySort("Int", s)))
	return key
}

func (f *fx) mapKeys(m *types.Map) (valKey, domKey string) {
	ks, vs := f.e.sorts.sortOf(m.Key()), f.e.sorts.sortOf(m.Elem())
	valKey = "MV:" + ks + ":" + vs
	domKey = "MD:" + ks + ":" + vs
	f.regKey(valKey, arraySort("Int", arraySort(ks, vs)))
	f.regKey(domKey, arraySort("Int", arraySort(ks, "Bool")))
	return
}

func (f *fx) sentKey(elem types.Type) string {
	es := f.e.sorts.sortOf(elem)
	key := "X:sent:" + es
	ts := f.e.sorts.traceSort(es)
	f.e.traceElemType[ts] = elem
	f.e.traceElemSorts[ts] = es
	f.regKey(key, arraySort("Int", ts))
	return key
}

func derefType(t types.Type) types.Type {
	if p, ok := t.Underlying().(*types.Pointer); ok {
		return p.Elem()
	}
	return nil
}

// ptrLoc turns a pointer-typed value into a location.
func (f *fx) ptrLoc(v Val, ptrType types.Type) *Loc {
	if v.Kind == vLoc {
		return v.Loc
	}
	if v.Kind != vTerm {
		unsupp("pointer value of kind %d", v.Kind)
	}
	elem := derefType(ptrType)
	if elem == nil {
		unsupp("ptrLoc of non-pointer type %s", ptrType)
	}
	if _, ok := elem.Underlying().(*types.Struct); ok && f.e.sorts.sortOf(elem) != "RV" && !strings.HasPrefix(f.e.sorts.sortOf(elem), "Opq_") {
		return &Loc{Root: rootHeap, Ref: v.T, Typ: elem, PTyp: elem}
	}
	return &Loc{Root: rootCell, Ref: v.T, Typ: elem, PTyp: elem}
}

// reify turns any value into a single SMT term.
func (f *fx) reify(v Val) Term {
	switch v.Kind {
	case vTerm:
		return v.T
	case vFn:
		return v.Fn.ID
	case vLoc:
		l := v.Loc
		if len(l.Path) == 0 && (l.Root == rootHeap || l.Root == rootCell) {
			return l.Ref
		}
		if l.Root == rootHeap || l.Root == rootCell || l.Root == rootBacking {
			// interior pointer: opaque injective-looking term without memory coherence
			name := "intp_" + mangle(shortTypeName(l.Typ))
			args := []Term{l.Ref}
			for _, s := range l.Path {
				if s.Idx != nil {
					name += "_i"
					args = append(args, *s.Idx)
				} else {
					name += fmt.Sprintf("_f%d", s.Field)
				}
			}
			sig := strings.Repeat("Int ", len(args))
			f.sc.declareOnce(name, fmt.Sprintf("(declare-fun %s (%s) Int)", name, strings.TrimSpace(sig)))
			f.note("interior pointer " + name + " passed as an opaque reference (no memory coherence through it)")
			t := app("Int", name, args...)
			f.sc.assert(T("Bool", "(> %s 0)", t.S))
			return t
		}
		if l.Root == rootGlobal && len(l.Path) == 0 {
			return f.globalAddr(l.Key)
		}
		unsupp("address of local %s escapes", l.Key)
	case vTuple:
		unsupp("tuple used as a term")
	}
	panic("unreachable")
}

// globalAddr is the (opaque, non-nil) address of a package-level variable.
func (f *fx) globalAddr(key string) Term {
	name := "gaddr_" + mangle(key)
	f.sc.declareOnce(name, fmt.Sprintf("(declare-const %s Int)\n(assert (< %s (- 1000000)))", name, name))
	return Term{name, "Int"}
}

func (f *fx) loadRoot(st *State, l *Loc) (Term, []PathStep) {
	switch l.Root {
	case rootHeap:
		if len(l.Path) == 0 {
			// whole struct value
			return f.loadStruct(st, l.Ref, l.Typ), nil
		}
		s0 := l.Path[0]
		if s0.Field < 0 {
			unsupp("index step on heap struct")
		}
		return sel(f.get(st, f.fieldKey(l.Typ, s0.Field)), l.Ref), l.Path[1:]
	case rootCell:
		return sel(f.get(st, f.cellKey(l.Typ)), l.Ref), l.Path
	case rootBacking:
		if len(l.Path) == 0 || l.Path[0].Idx == nil {
			unsupp("backing store access without index")
		}
		return sel(sel(f.get(st, f.backingKey(l.Typ)), l.Ref), *l.Path[0].Idx), l.Path[1:]
	case rootLocal, rootGlobal:
		return f.get(st, l.Key), l.Path
	}
	panic("bad root")
}

func (f *fx) loadStruct(st *State, ref Term, t types.Type) Term {
	srt := f.e.sorts.sortOf(t)
	info := f.e.sorts.structInfo[srt]
	if info == nil {
		unsupp("load of whole %s", srt)
	}
	if len(info.Fields) == 0 {
		return Term{"mk_" + srt, srt}
	}
	var parts []Term
	for i := range info.Fields {
		parts = append(parts, sel(f.get(st, f.fieldKey(t, i)), ref))
	}
	return app(srt, "mk_"+srt, parts...)
}

// stepType returns the type after applying one path step to a value of type t.
func stepType(t types.Type, s PathStep) types.Type {
	switch u := t.Underlying().(type) {
	case *types.Struct:
		return u.Field(s.Field).Type()
	case *types.Array:
		return u.Elem()
	}
	return nil
}

func (f *fx) descend(v Term, t types.Type, path []PathStep) Term {
	for _, s := range path {
		switch u := t.Underlying().(type) {
		case *types.Struct:
			info := f.e.sorts.structInfo[f.e.sorts.sortOf(t)]
			if info == nil {
				v = f.opaqueField(v, t, s.Field)
				t = u.Field(s.Field).Type()
				continue
			}
			v = app(info.FSorts[s.Field], info.Fields[s.Field], v)
			t = u.Field(s.Field).Type()
		case *types.Array:
			v = sel(v, *s.Idx)
			t = u.Elem()
		default:
			unsupp("path step into %s", t)
		}
	}
	return v
}

// opaqueField reads a field of a struct type from outside the repository (uninterpreted accessor).
func (f *fx) opaqueField(v Term, t types.Type, i int) Term {
	st := t.Underlying().(*types.Struct)
	fs := f.e.sorts.sortOf(st.Field(i).Type())
	name := "opqf_" + mangle(shortTypeName(t)) + "_" + mangle(st.Field(i).Name())
	f.sc.declareOnce(name, fmt.Sprintf("(declare-fun %s (%s) %s)", name, v.Sort, fs))
	return app(fs, name, v)
}

func (f *fx) update(v Term, t types.Type, path []PathStep, nv Term) Term {
	if len(path) == 0 {
		return nv
	}
	// name the old value: rebuilding a struct from accessors of an unnamed term doubles the term per store
	v = f.sc.define("upd", v)
	s := path[0]
	switch u := t.Underlying().(type) {
	case *types.Struct:
		srt := f.e.sorts.sortOf(t)
		info := f.e.sorts.structInfo[srt]
		if info == nil {
			// a store into a field of a struct this model keeps opaque (a library type such as sync.Pool):
			// the struct becomes an arbitrary value of its sort (nothing is known about opaque structs anyway)
			f.note("store into a field of the opaque struct " + t.String() + ": the struct value is havocked")
			return f.sc.fresh("opaque_upd", srt)
		}
		parts := make([]Term, len(info.Fields))
		for i := range info.Fields {
			cur := app(info.FSorts[i], info.Fields[i], v)
			if i == s.Field {
				parts[i] = f.update(cur, u.Field(i).Type(), path[1:], nv)
			} else {
				parts[i] = cur
			}
		}
		return app(srt, "mk_"+srt, parts...)
	case *types.Array:
		return sto(v, *s.Idx, f.update(sel(v, *s.Idx), u.Elem(), path[1:], nv))
	}
	unsupp("update path into %s", t)
	return nv
}

func (f *fx) rootValueType(l *Loc) (types.Type, []PathStep) {
	switch l.Root {
	case rootHeap:
		if len(l.Path) == 0 {
			return l.Typ, nil
		}
		return l.Typ.Underlying().(*types.Struct).Field(l.Path[0].Field).Type(), l.Path[1:]
	case rootBacking:
		return l.Typ, l.Path[1:]
	}
	return l.Typ, l.Path
}

func (f *fx) load(st *State, l *Loc) Term {
	v, rest := f.loadRoot(st, l)
	t, _ := f.rootValueType(l)
	if l.Root == rootHeap && len(l.Path) == 1 {
		f.loadBound(st, l, v)
	}
	return f.descend(v, t, rest)
}

// loadBound: a reference loaded from a field of an object that existed when the field's array was
// introduced is itself not younger than that (objects allocated later are distinct from it).
func (f *fx) loadBound(st *State, l *Loc, v Term) {
	key := f.fieldKey(l.Typ, l.Path[0].Field)
	if !f.e.keyIsRef[key] {
		return
	}
	if strings.Contains(l.Ref.S, "$") {
		return // the reference mentions a bound variable of a spec quantifier: no side facts
	}
	arr := f.get(st, key)
	base := baseArray(arr.S)
	if b, ok := f.top.arrBound[base]; ok {
		f.sc.assert(T("Bool", "(=> (and (< 0 %s) (<= %s %s)) (and (<= 0 (select %s %s)) (<= (select %s %s) %s)))", l.Ref.S, l.Ref.S, b.S, base, l.Ref.S, base, l.Ref.S, b.S))
	}
}

// baseArray strips enclosing (store A i v) layers from an array term.
func baseArray(s string) string {
	for strings.HasPrefix(s, "(store ") {
		// first argument of store
		rest := s[len("(store "):]
		depth := 0
		end := -1
		for i, c := range rest {
			if c == '(' {
				depth++
			} else if c == ')' {
				depth--
			} else if c == ' ' && depth == 0 {
				end = i
				break
			}
		}
		if end < 0 {
			return s
		}
		s = rest[:end]
	}
	return s
}

func (f *fx) store(st *State, l *Loc, nv Term) {
	switch l.Root {
	case rootHeap:
		if len(l.Path) == 0 {
			// whole struct assignment
			srt := f.e.sorts.sortOf(l.Typ)
			info := f.e.sorts.structInfo[srt]
			if info == nil {
				unsupp("store of whole %s", srt)
			}
			for i := range info.Fields {
				k := f.fieldKey(l.Typ, i)
				f.set(st, k, sto(f.get(st, k), l.Ref, app(info.FSorts[i], info.Fields[i], nv)))
			}
			return
		}
		k := f.fieldKey(l.Typ, l.Path[0].Field)
		arr := f.get(st, k)
		ft := l.Typ.Underlying().(*types.Struct).Field(l.Path[0].Field).Type()
		f.set(st, k, sto(arr, l.Ref, f.update(sel(arr, l.Ref), ft, l.Path[1:], nv)))
	case rootCell:
		k := f.cellKey(l.Typ)
		arr := f.get(st, k)
		f.set(st, k, sto(arr, l.Ref, f.update(sel(arr, l.Ref), l.Typ, l.Path, nv)))
	case rootBacking:
		k := f.backingKey(l.Typ)
		arr := f.get(st, k)
		inner := sel(arr, l.Ref)
		idx := *l.Path[0].Idx
		f.set(st, k, sto(arr, l.Ref, sto(inner, idx, f.update(sel(inner, idx), l.Typ, l.Path[1:], nv))))
	case rootLocal, rootGlobal:
		f.set(st, l.Key, f.update(f.get(st, l.Key), l.Typ, l.Path, nv))
	}
}

// ---------------------------------------------------------------------------
// typing facts

func (f *fx) allocNow(st *State) Term { return f.get(st, "E:alloc") }

// assumeTyped adds facts that hold for every well-typed Go value.
func (f *fx) assumeTyped(st *State, v Term, t types.Type) {
	if t == nil {
		return
	}
	switch u := t.Underlying().(type) {
	case *types.Pointer, *types.Map, *types.Chan:
		f.sc.assert(T("Bool", "(and (<= 0 %s) (<= %s %s))", v.S, v.S, f.allocNow(st).S))
	case *types.Slice:
		f.sc.assert(T("Bool", "(and (<= 0 (sl_ref %s)) (<= (sl_ref %s) %s) (<= 0 (sl_off %s)) (<= 0 (sl_len %s)) (<= (sl_len %s) (sl_cap %s)))", v.S, v.S, f.allocNow(st).S, v.S, v.S, v.S, v.S))
	case *types.Basic:
		if u.Info()&types.IsUnsigned != 0 {
			f.sc.assert(T("Bool", "(<= 0 %s)", v.S))
			if u.Kind() == types.Uint8 {
				f.sc.assert(T("Bool", "(<= %s 255)", v.S))
			}
		}
	case *types.Struct:
		// struct values: the same facts for every field (references and slices held in struct values are allocated)
		if info := f.e.sorts.structInfo[f.e.sorts.sortOf(t)]; info != nil && len(v.S) < 400 {
			for i := 0; i < u.NumFields() && i < len(info.Fields); i++ {
				ft := u.Field(i).Type()
				switch ft.Underlying().(type) {
				case *types.Pointer, *types.Map, *types.Chan, *types.Slice, *types.Struct:
					f.assumeTyped(st, app(info.FSorts[i], info.Fields[i], v), ft)
				}
			}
		}
	case *types.Interface:
		f.sc.assert(T("Bool", "(and (<= 0 (itag %s)) (=> (= (itag %s) 0) (= (ival %s) 0)))", v.S, v.S, v.S))
		if u.NumMethods() > 0 {
			// a non-nil value of a non-empty interface type holds a value whose type implements the interface
			f.sc.assert(T("Bool", "(or (= (itag %s) 0) (implements (itag %s) %d))", v.S, v.S, f.e.sorts.ifaceID(t)))
		}
	}
}

// ---------------------------------------------------------------------------
// obligations

func (f *fx) srcLine(pos token.Pos) (string, string) {
	if !pos.IsValid() {
		return "", ""
	}
	p := f.e.fset.Position(pos)
	lines, ok := f.top.srcLines[p.Filename]
	if !ok {
		if data, err := os.ReadFile(p.Filename); err == nil {
			lines = strings.Split(string(data), "\n")
		}
		f.top.srcLines[p.Filename] = lines
	}
	txt := ""
	if p.Line-1 < len(lines) && p.Line >= 1 {
		txt = strings.TrimSpace(lines[p.Line-1])
	}
	return fmt.Sprintf("%s:%d", shortFile(p.Filename), p.Line), txt
}

func shortFile(p string) string {
	if i := strings.LastIndex(p, "/repo/"); i >= 0 {
		return p[i+6:]
	}
	return p
}

func (f *fx) oblige(kind, name string, goal Term, props []string, where, detail string) {
	if len(props) == 0 && f.top.contract != nil {
		props = f.top.contract.Props
	}
	goalD := goal
	o := &Obligation{Name: fnKey(f.top.fn) + "/" + name, Kind: kind, Props: props, Func: fnKey(f.top.fn), Where: where, Goal: goalD, Reach: f.curReach, Index: len(f.sc.lines), Detail: detail}
	f.sc.obls = append(f.sc.obls, o)
	// after the check the goal may be assumed on this path
	f.sc.assert(implies(f.curReach, goal))
}

func (f *fx) crash(kind string, ok Term, pos token.Pos) {
	if ok.S == "true" {
		return
	}
	if f.noCrash() {
		f.note("crash-freedom of " + fnKey(f.top.fn) + " is assumed, not checked (nocrash)")
		f.sc.assert(implies(f.curReach, ok))
		return
	}
	where, txt := f.srcLine(pos)
	short := txt
	if len(short) > 48 {
		short = short[:48]
	}
	base := fmt.Sprintf("crash:%s:{%s}", kind, short)
	name := fmt.Sprintf("%s#%d", base, f.ordinal(base))
	f.oblige("crash", name, ok, nil, where, kind+" must not crash: "+txt)
}
