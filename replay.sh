#!/bin/bash
# replay.sh <repo-dir> <test-file.go> [<pkg-subdir>]: run an in-package test against the real code
# without writing into the repository (go test -overlay). Exit 0 = test passed.
set -u
export GOFLAGS=-mod=mod GOPROXY=off GOSUMDB=off GOTOOLCHAIN=local
REPO=$1; FILE=$(readlink -f "$2"); SUB=${3:-.}
TMP=$(mktemp -d); trap 'rm -rf "$TMP"' EXIT
NAME=zz_replay_$(basename "$FILE" .go | tr -c 'a-zA-Z0-9_' '_')_test.go
NAME=${NAME/_test_test/_test}
cat > "$TMP/ov.json" <<J
{"Replace": {"$(readlink -f "$REPO/$SUB")/$NAME": "$FILE"}}
J
FUN=$(grep -o 'func Test[A-Za-z0-9_]*' "$FILE" | head -1 | sed 's/func //')
cd "$REPO/$SUB" && ( ulimit -v 8000000; go test -overlay "$TMP/ov.json" -vet=off -count=1 -timeout 60s -run "^${FUN}\$" . )
