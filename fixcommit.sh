#!/bin/bash
# fixcommit.sh "<fix: msg>" "<props>" "<pattern>:<demo>[:sub]" "<what failed text>" files...
# helper around mkfix.sh: stashes the (uncommitted) contract files of /repo, commits the fix, restores them,
# records the demo mapping and the fixed: line
set -e
MSG=$1; PROPS=$2; MAP=$3; WHAT=$4; shift 4
cd /repo
CF=$(git status --porcelain | awk '{print $2}' | grep "_contracts_verif.go" || true)
[ -n "$CF" ] && git stash -q -- $CF
/verif/mkfix.sh "$MSG" "$PROPS" "$@" | tail -2
[ -n "$CF" ] && git stash pop -q
H=$(git log --format=%h -1 --grep="^fix:")
python3 - "$PROPS" "$MAP" "$WHAT" "$H" <<'PY'
import json,sys
props,mp,what,h=sys.argv[1:5]
p='/verif/findings/demos.json'; d=json.load(open(p))
parts=mp.split(':')
pat,test=parts[0],parts[1]
ent={"pattern":pat,"test":test}
if len(parts)>2: ent["sub"]=parts[2]
for pid in props.split():
    d.setdefault(pid,[]).insert(0,dict(ent))
json.dump(d,open(p,'w'),indent=1)
open('/verif/known_findings.txt','a').write(f'fixed: property={props.split()[0]} {h} {what}\n')
print('recorded',h)
PY
