#!/bin/bash
# mkdesign.sh: assembles DESIGN.md from DESIGN_part1.md (as built), seeded/CATCH_TABLE.md and DESIGN_part2_plan.md
cd "$(dirname "$0")"
{
  cat DESIGN_part1.md
  echo
  echo "## I.8 Which checks catch which seeded changes"
  echo
  echo "Produced by \`seeded/run_checks.sh\` (each change applied in a scratch worktree, every registered check run"
  echo "from a snapshot of /verif) and rendered by \`seeded/table.py\`. First-round mutants (\`_m1\`..\`_m3\`) were run against"
  echo "all 20 checks, later rounds (\`_m4\`..\`_m9\`) against the check of their own property (logs: \`seeded/logs/\`). Obligations ending in"
  echo "\`/supported-subset\` mean that the contract no longer fits the changed code (a renamed or removed local, a removed"
  echo "defer), which is reported like any other failed obligation."
  echo
  cat seeded/CATCH_TABLE.md
  echo
  echo "History of the misses: after the first full run 17 of the 60 first-round changes were not reported by their own"
  echo "property's check (C01_m3, C02_m2, C03_m3, C04_m2, C04_m3, C05_m2, C05_m3, C06_m3, C09_m1, C10_m1, C10_m2, C11_m2,"
  echo "C11_m3, C15_m2, C15_m3, C18_m1, C18_m3, C20_m2); each led to a stronger contract (default escaper, lexer drain, float"
  echo "promotion, terminators, isTrue, mapRanger.Setup, getBlock's third scope, LetGlobal, include name, cache key type,"
  echo "private loader buffers, reflect-store and loader-call scans, freshness of parser results) or exposed a fault of the"
  echo "machinery (numbered call-site clauses inside inlined code matched nothing: C10_m1; obligations proved from an"
  echo "earlier failed obligation of another property: C03_m3). Of the 20 second-round changes 16 were reported at once;"
  echo "the other four (C07_m4, C08_m5, C17_m4, C17_m5) led to the content-closure property tags, the parameter-binding"
  echo "step clause, the IsSet/isSet correspondence and the C17 tags on resolveIndex. A third round (\`_m4\`, \`_m5\` of the"
  echo "other ten properties, run against their own check): 17 of 20 reported at once; C06_m4 (omitted slice end index), C10_m5"
  echo "(shared block table: reported by C08/C11 only) and C20_m5 (range collection stored twice in the tree) led to the"
  echo "call-site clauses on reflect.Value.Slice, the C10 tag on addBlocks/Set.parse and the parseControl postconditions."
  echo "A fourth round (\`_m6\`, \`_m7\`, all 20 properties, agents asked for changes away from the obvious places): 33 of 40"
  echo "reported at once; the seven misses (C03_m7 comment delimiters not passed to the lexer, C05_m6 kind before Ranger"
  echo "interface, C06_m7 indirect stopping at non-empty interfaces, C07_m7 context kept in the pooled runtime, C08_m7 empty"
  echo "yield content, C09_m6 getTemplate dropping a template that failed to parse, C17_m6 an extra error exit in the map arm"
  echo "of resolveIndex) each led to a new postcondition or call-site clause. A fifth round (\`_m8\`, \`_m9\`, all 20"
  echo "properties; the agents were given one-line summaries of the 140 earlier changes and told not to repeat them): 22 of"
  echo "40 reported at once. The 18 misses and what they led to: C04_m8 (a sign folded into a number literal at parse time:"
  echo "unaryExpression's result is now pinned to the node its constructor returned), C05_m8 (if-header scope popped before"
  echo "the else branch: both branches are called inside the header scope), C05_m9 (indirect stopping at interfaces with"
  echo "methods: the C06 postcondition now also counts for C05, getRanger hands Setup the fully indirected value), C06_m9 and"
  echo "C17_m8 (a literal string index passed as a field name: call-site clauses pin what an index expression hands to"
  echo "resolveIndex), C09_m9 (return routed through lastReturn: step clause on NodeReturn), C10_m8 and C11_m8 (pooled ranger"
  echo "put back twice: each range statement calls its cleanup exactly once), C10_m9 (getBlock memoising into a shared block"
  echo "table: \`stores-map\` frame on the block-table type), C11_m9 (template cached before its block table is complete:"
  echo "\`(Cache).Put\` only in getTemplate), C13_m8 (catch variable bound with SetOrLet: the catch body runs in a fresh scope"
  echo "holding the error, no Set/Let calls in executeTry), C14_m9 (len counting runes: functional contract of the len"
  echo "builtin), C15_m8 and C15_m9 (exec/includeIfExists and extends/import rewriting the name before lookup: call-site"
  echo "clauses pin the name as written), C16_m8 (falling through to a later extension after a load failure: the first existing"
  echo "candidate decides), C18_m8 and C18_m9 (SetOrLet and ParseInto had no contract). The same agents reported five"
  echo "pre-existing violations, all confirmed and repaired (I.6). First-exposure detection by the property's own check was"
  echo "thus 43/60, 16/20, 17/20, 33/40 and 22/40 over the first five rounds. A sixth round (\`_m10\`, \`_m11\`, agents pointed"
  echo "at helpers, constructors and option setters): 24 of 40 reported at once. Seven of the 16 misses were missing property"
  echo "tags (the obligation existed and failed, but under another property: C01_m10, C05_m11, C11_m11, C17_m11, C18_m11,"
  echo "C20_m10; C11_m10 was first reported by an unrelated obligation timing out under load, then missed, then tagged); the"
  echo "others led to new clauses: the loader's bytes reach the parser unmodified (C03_m10), integer indexes are used as they"
  echo "are (C06_m10), every named member is first looked up as a method (C06_m11), includeIfExists and include ask the Set on"
  echo "every call (C09_m11, C16_m11), parseCatch keeps the error variable (C13_m11), ParseInto parses every argument (C14_m11),"
  echo "Resolve is identifier lookup (C18_m10), the OS loader answers from exactly one os.Stat (C19_m11). After strengthening,"
  echo "all 220 were reported by the check of their own property. A seventh round (\`_m12\`, \`_m13\`): 29 of 40 reported at"
  echo "once; eight of the eleven misses were missing property tags or units not yet listed under the property (the obligation"
  echo "failed under another property: C02_m13, C03_m13, C08_m13, C09_m12, C11_m13, C17_m13, C20_m13, and C08_m13/C20_m12 showed"
  echo "up as supported-subset once the ledger knew the unit), the others led to new clauses: getTypeString never panics"
  echo "(C12_m13), the ranged-over expression is evaluated before the loop scope is opened (C18_m12), a func(Arguments) value is"
  echo "always called with the piped value (C18_m13), a return statement has a value (C20_m12). After strengthening, all 260 are"
  echo "reported by the check of their own property (two of them have meanwhile become harmless through later fixes and are"
  echo "marked so in the table)."
  echo
  echo "# Part II — the round-0 plan (kept for reference; Part I wins where they differ)"
  echo
  cat DESIGN_part2_plan.md
} > DESIGN.md
