#!/bin/bash
# tryseed.sh <seed dir name> [prop]: apply a seeded patch to /repo (which must be clean), run the own check, restore
export GOFLAGS=-mod=mod GOPROXY=off GOSUMDB=off GOTOOLCHAIN=local
m=$1; p=${2:-${m%%_*}}
[ -n "$(git -C /repo status --porcelain)" ] && { echo "/repo not clean"; exit 2; }
P=/verif/seeded/$m/patch.diff; [ -f /verif/seeded/$m/patch.rebased.diff ] && P=/verif/seeded/$m/patch.rebased.diff
git -C /repo apply $P || exit 2
cd /verif && bin/jetvc check -prop $p -evidence-dir /tmp/evq 2>&1 | grep "VIOLATION\|tier quick" | cut -c1-220
git -C /repo checkout -- . ; git -C /repo clean -fdq
