module axiomcheck

go 1.23
