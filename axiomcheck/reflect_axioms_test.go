// Sanity tests (not proofs) of the assumed contracts in /verif/axioms/reflect.spec and strings.spec against the real
// library: for a corpus of values, a call whose stated precondition holds must not panic with a non-error value, and
// where the spec states an equivalence, the observers must agree. Run by `./check <ID> --tier thorough` and by hand:
//   cd /verif/axiomcheck && go test ./...
package axiomcheck

import (
	"fmt"
	"reflect"
	"strings"
	"testing"
	"unicode/utf8"
)

type inner struct{ A int }
type named string
type st struct {
	X int
	S string
	P *inner
	inner
}

func corpus() []reflect.Value {
	arr := [3]int{1, 2, 3}
	var nilp *inner
	var nilm map[string]int
	var nilf func()
	var e interface{} = 5
	vals := []interface{}{
		0, 1, -1, int8(3), uint(0), uint8(7), uintptr(9), 1.5, float32(0), "", "héllo", named("n"), true, false,
		[]int{}, []int{1, 2}, []byte("ab"), arr, &arr, map[string]int{"a": 1}, map[int]string{1: "x"}, nilm, nilp, &inner{1},
		st{X: 1}, &st{}, func() {}, nilf, make(chan int), &e, complex(1, 2), []interface{}{1, "a"}, [0]int{},
	}
	var out []reflect.Value
	out = append(out, reflect.Value{})
	for _, v := range vals {
		rv := reflect.ValueOf(v)
		out = append(out, rv)
		if rv.Kind() == reflect.Ptr && !rv.IsNil() {
			out = append(out, rv.Elem()) // addressable views
		}
	}
	return out
}

// crashes reports whether f panics with a value that is not an error (what Runtime.recover re-panics), or with a
// runtime.Error.
func crashes(f func()) (crashed bool, val interface{}) {
	defer func() {
		if r := recover(); r != nil {
			val = r
			if _, ok := r.(error); !ok {
				crashed = true
			} else if strings.HasPrefix(fmt.Sprint(r), "runtime error") {
				crashed = true
			}
		}
	}()
	f()
	return false, nil
}

func TestKindValidType(t *testing.T) {
	for _, v := range corpus() {
		if (v.Kind() == reflect.Invalid) != !v.IsValid() {
			t.Errorf("Kind()==0 iff !IsValid fails for %v", v)
		}
		if v.IsValid() && v.Type().Kind() != v.Kind() {
			t.Errorf("TKind(RvTypeOf(v)) == RvKind(v) fails for %v", v)
		}
		if v.IsValid() && v.Type() == nil {
			t.Errorf("Type() nil for %v", v)
		}
	}
	if reflect.ValueOf(nil).IsValid() {
		t.Error("!RvValid(RvOf(nil))")
	}
}

func TestSlicePrecondition(t *testing.T) {
	for _, v := range corpus() {
		if !v.IsValid() {
			continue
		}
		k := v.Kind()
		kindOK := k == reflect.Slice || k == reflect.String || (k == reflect.Array && v.CanAddr())
		for i := -1; i <= 4; i++ {
			for j := -1; j <= 5; j++ {
				pre := kindOK
				if pre {
					max := v.Len()
					if k == reflect.Slice {
						max = v.Cap()
					}
					pre = 0 <= i && i <= j && j <= max
				}
				crashed, val := crashes(func() { v.Slice(i, j) })
				if pre && (crashed || val != nil) {
					t.Errorf("Slice(%d,%d) on %v (%s): precondition holds but panicked: %v", i, j, v, k, val)
				}
				if !pre && val == nil {
					t.Errorf("Slice(%d,%d) on %v (%s): precondition fails but no panic (spec too strong: only a false alarm risk)", i, j, v, k)
				}
			}
		}
	}
}

func TestIndexPrecondition(t *testing.T) {
	for _, v := range corpus() {
		k := v.Kind()
		if k != reflect.Slice && k != reflect.String && k != reflect.Array {
			continue
		}
		for i := -1; i <= v.Len(); i++ {
			pre := 0 <= i && i < v.Len()
			_, val := crashes(func() { v.Index(i) })
			if pre != (val == nil) {
				t.Errorf("Index(%d) on %v: precondition %v, panic value %v", i, v, pre, val)
			}
		}
		if k != reflect.String && v.Cap() < v.Len() {
			t.Errorf("Cap >= Len fails for %v", v)
		}
	}
}

func TestConvertAndAssignable(t *testing.T) {
	vs := corpus()
	for _, v := range vs {
		if !v.IsValid() {
			continue
		}
		for _, w := range vs {
			if !w.IsValid() {
				continue
			}
			tt := w.Type()
			conv := v.Type().ConvertibleTo(tt)
			crashed, val := crashes(func() {
				r := v.Convert(tt)
				if r.Type() != tt || !r.IsValid() {
					t.Errorf("Convert result type/validity wrong: %v -> %s", v, tt)
				}
			})
			if conv && crashed {
				// the one documented gap: slice to a longer array or pointer to array
				if !(v.Kind() == reflect.Slice && (tt.Kind() == reflect.Array || (tt.Kind() == reflect.Ptr && tt.Elem().Kind() == reflect.Array))) {
					t.Errorf("ConvertibleTo(%s -> %s) but Convert crashed: %v", v.Type(), tt, val)
				}
			}
			if !conv && val == nil {
				t.Errorf("!ConvertibleTo(%s -> %s) but Convert did not panic", v.Type(), tt)
			}
			if !tt.AssignableTo(tt) {
				t.Errorf("TAssign(t, t) fails for %s", tt)
			}
		}
	}
}

func TestMapIndexWithConvertedKey(t *testing.T) {
	m := reflect.ValueOf(map[int]string{1: "one"})
	for _, k := range []interface{}{1, int8(1), uint(1), 1.0} {
		kv := reflect.ValueOf(k)
		if !kv.Type().ConvertibleTo(m.Type().Key()) {
			continue
		}
		crashed, val := crashes(func() { m.MapIndex(kv.Convert(m.Type().Key())) })
		if crashed || val != nil {
			t.Errorf("MapIndex with a key converted to the key type panicked: %v", val)
		}
	}
	if m.MapIndex(reflect.ValueOf(7)).IsValid() {
		t.Error("absent key must yield the zero Value")
	}
}

func TestIsZeroAgreesWithObservers(t *testing.T) {
	for _, v := range corpus() {
		if !v.IsValid() {
			continue
		}
		switch k := v.Kind(); {
		case k >= reflect.Int && k <= reflect.Int64:
			if v.IsZero() != (v.Int() == 0) {
				t.Errorf("IsZero vs Int for %v", v)
			}
		case k >= reflect.Uint && k <= reflect.Uintptr:
			if v.IsZero() != (v.Uint() == 0) {
				t.Errorf("IsZero vs Uint for %v", v)
			}
		case k == reflect.Bool:
			if v.IsZero() != !v.Bool() {
				t.Errorf("IsZero vs Bool for %v", v)
			}
		case k == reflect.String:
			if v.IsZero() != (v.Len() == 0) {
				t.Errorf("IsZero vs Len for %v", v)
			}
		}
	}
}

func TestSetAndSetMapIndexPreconditions(t *testing.T) {
	vs := corpus()
	for _, v := range vs {
		if !v.IsValid() {
			continue
		}
		for _, x := range vs {
			pre := v.CanSet() && x.IsValid() && x.Type().AssignableTo(v.Type())
			if pre {
				old := reflect.New(v.Type()).Elem()
				old.Set(v)
				crashed, val := crashes(func() { v.Set(x) })
				if crashed || val != nil {
					t.Errorf("Set precondition holds but panicked: %v <- %v: %v", v.Type(), x.Type(), val)
				}
				v.Set(old)
			}
		}
	}
	m := reflect.ValueOf(map[string]int{})
	key, elem := reflect.ValueOf("k"), reflect.ValueOf(1)
	if c, val := crashes(func() { m.SetMapIndex(key, elem) }); c || val != nil {
		t.Errorf("SetMapIndex with assignable key and element panicked: %v", val)
	}
	var nilm map[string]int
	if _, val := crashes(func() { reflect.ValueOf(nilm).SetMapIndex(key, elem) }); val == nil {
		t.Error("SetMapIndex on a nil map must panic")
	}
}

func TestCallNilAndFuncTypes(t *testing.T) {
	var nilf func()
	if _, val := crashes(func() { reflect.ValueOf(nilf).Call(nil) }); val == nil {
		t.Error("Call of a nil func must panic")
	}
	f := reflect.TypeOf(func(a int, b ...string) {})
	if !f.IsVariadic() || f.NumIn() != 2 || f.In(1).Kind() != reflect.Slice || f.In(1).Elem().Kind() != reflect.String {
		t.Error("variadic function type shape")
	}
	for _, v := range corpus() {
		if v.IsValid() && v.Kind() != reflect.Func {
			if _, val := crashes(func() { v.Type().NumIn() }); val == nil {
				t.Errorf("NumIn on non-func type %s did not panic", v.Type())
			}
		}
	}
}

func TestStringAxioms(t *testing.T) {
	for _, s := range []string{"", "a", "héllo", "{{x}}", "\xff\xfe", "a\nb"} {
		r, w := utf8.DecodeRuneInString(s)
		if s == "" && (r != utf8.RuneError || w != 0) {
			t.Error("DecodeRuneInString on empty")
		}
		if s != "" && (w < 1 || w > 4 || w > len(s)) {
			t.Errorf("width of first rune of %q: %d", s, w)
		}
		for _, p := range []string{"", "a", "{{", "h", "\xff"} {
			if strings.HasPrefix(s, p) != (len(s) >= len(p) && s[:len(p)] == p) {
				t.Errorf("HasPrefix(%q,%q)", s, p)
			}
			i := strings.Index(s, p)
			if i >= 0 && s[i:i+len(p)] != p {
				t.Errorf("Index(%q,%q)=%d", s, p, i)
			}
			if i < 0 && strings.Contains(s, p) {
				t.Errorf("Index(%q,%q) < 0 but contains", s, p)
			}
		}
	}
}

type st2 struct {
	X int
	S string
	P *inner
	inner
}

func TestStructuralFactsOfConvertibleTypes(t *testing.T) {
	type m1 map[string]int
	vs := append(corpus(), reflect.ValueOf(st2{}), reflect.ValueOf(m1{"a": 1}))
	for _, v := range vs {
		if !v.IsValid() {
			continue
		}
		for _, w := range vs {
			if !w.IsValid() {
				continue
			}
			rel := v.Type() == w.Type() || w.Type().AssignableTo(v.Type()) || w.Type().ConvertibleTo(v.Type())
			if !rel {
				continue
			}
			if v.Kind() == reflect.Struct {
				if w.Kind() != reflect.Struct || w.NumField() != v.NumField() {
					t.Errorf("struct %s vs %s: field counts differ", v.Type(), w.Type())
				}
			}
			if v.Kind() == reflect.Map && w.Kind() == reflect.Map {
				for _, k := range v.MapKeys() {
					if !k.Type().AssignableTo(v.Type().Key()) {
						t.Errorf("MapKeys of %s: key not assignable", v.Type())
					}
					if c, val := crashes(func() { w.MapIndex(k) }); c || val != nil {
						t.Errorf("key of %s is not a key of %s: %v", v.Type(), w.Type(), val)
					}
				}
			}
		}
	}
}

func TestIndexRuneOfInvalidRune(t *testing.T) {
	for _, s := range []string{"", "abc", "�", "a\xffb"} {
		if strings.IndexRune(s, -1) != -1 {
			t.Errorf("IndexRune(%q, -1) != -1", s)
		}
	}
}

// axiom: any two integer or floating-point types (kinds 2..14) convert to each other; a boxed float64 reads back
// through Value.Float; Go's / and % truncate toward zero (godiv/gorem agree with div/mod on the non-negative quadrant).
func TestNumericTypesConvertAndFloatObserver(t *testing.T) {
	type myInt int16
	type myFloat float32
	vals := []interface{}{int(1), int8(1), int16(1), int32(1), int64(1), uint(1), uint8(1), uint16(1), uint32(1), uint64(1), uintptr(1), float32(1), float64(1), myInt(1), myFloat(1)}
	for _, a := range vals {
		for _, b := range vals {
			ta, tb := reflect.TypeOf(a), reflect.TypeOf(b)
			if ta.Kind() < 2 || ta.Kind() > 14 || tb.Kind() < 2 || tb.Kind() > 14 {
				t.Fatalf("kind numbering changed: %v %v", ta.Kind(), tb.Kind())
			}
			if !ta.ConvertibleTo(tb) {
				t.Errorf("%v not convertible to %v", ta, tb)
			}
		}
	}
	for _, f := range []float64{0, 1.5, -2.25, 1e300} {
		v := reflect.ValueOf(f)
		if !v.IsValid() || v.Kind() != reflect.Float64 || v.Float() != f {
			t.Errorf("ValueOf(%v): kind %v Float %v", f, v.Kind(), v.Float())
		}
	}
	for a := int64(0); a < 40; a++ {
		for b := int64(1); b < 9; b++ {
			q, r := a/b, a%b
			if q*b+r != a || r < 0 || r >= b {
				t.Errorf("%d/%d = %d rem %d", a, b, q, r)
			}
		}
	}
}

type axPVal struct{ N int }

func (p axPVal) Get() int { return p.N }
func (p *axPVal) Ptr() int { return 1 }

// IsNil panics exactly for the kinds that cannot be nil; converting a func value to another func type keeps kind and
// nil-ness and the converted value has the target type; Type.MethodByName on the element type tells value-receiver
// methods (which panic when called through a nil pointer) from pointer-receiver ones; a nil value of an interface type
// whose static type implements an interface holds nothing.
func TestIsNilKindsFuncConversionAndMethodSets(t *testing.T) {
	type named func(int) int
	vals := []interface{}{1, "s", 1.5, true, []int(nil), map[string]int(nil), (*int)(nil), (func())(nil), (chan int)(nil), struct{}{}, [1]int{}}
	for _, x := range vals {
		v := reflect.ValueOf(x)
		k := v.Kind()
		nilable := (k >= reflect.Chan && k <= reflect.Slice) || k == reflect.UnsafePointer
		panicked := func() (p bool) {
			defer func() { p = recover() != nil }()
			v.IsNil()
			return
		}()
		if panicked == nilable {
			t.Errorf("IsNil on kind %v: panicked=%v", k, panicked)
		}
	}
	f := func(i int) int { return i }
	for _, fv := range []reflect.Value{reflect.ValueOf(f), reflect.ValueOf((func(int) int)(nil))} {
		tt := reflect.TypeOf(named(nil))
		if !fv.Type().ConvertibleTo(tt) {
			t.Fatal("func types with identical underlying type must convert")
		}
		c := fv.Convert(tt)
		if c.Kind() != reflect.Func || c.IsNil() != fv.IsNil() || c.Type() != tt {
			t.Errorf("Convert: kind %v nil %v type %v", c.Kind(), c.IsNil(), c.Type())
		}
		if _, ok := c.Interface().(named); !ok {
			t.Errorf("a value whose type is the named func type asserts to it")
		}
	}
	var np *axPVal
	pv := reflect.ValueOf(np)
	if _, onValue := pv.Type().Elem().MethodByName("Get"); !onValue {
		t.Errorf("Get is declared on the value type")
	}
	if _, onValue := pv.Type().Elem().MethodByName("Ptr"); onValue {
		t.Errorf("Ptr is not in the value type's method set")
	}
	if !pv.MethodByName("Get").IsValid() || !pv.MethodByName("Ptr").IsValid() {
		t.Errorf("both methods are found on the pointer")
	}
	func() {
		defer func() {
			if recover() == nil {
				t.Errorf("calling a value method through a nil pointer panics")
			}
		}()
		pv.MethodByName("Get").Call(nil)
	}()
	if r := pv.MethodByName("Ptr").Call(nil); r[0].Int() != 1 {
		t.Errorf("pointer-receiver methods can be called on a nil pointer")
	}
	type holder struct{ S fmt.Stringer }
	fld := reflect.ValueOf(holder{}).Field(0)
	if !fld.Type().Implements(reflect.TypeOf((*fmt.Stringer)(nil)).Elem()) || fld.Kind() != reflect.Interface || !fld.IsNil() {
		t.Fatalf("unexpected shape of a nil interface field")
	}
	if _, ok := fld.Interface().(fmt.Stringer); ok {
		t.Errorf("a nil interface value implements nothing")
	}
}

// Convert panics for a slice shorter than the array (or array pointer) type it is converted to although ConvertibleTo
// is true for the types; with a long enough slice it works (ConvSafe).
func TestSliceToArrayConversion(t *testing.T) {
	arr := reflect.TypeOf([3]int{})
	parr := reflect.TypeOf(&[3]int{})
	for _, n := range []int{0, 2, 3, 5} {
		s := reflect.ValueOf(make([]int, n))
		for _, tt := range []reflect.Type{arr, parr} {
			if !s.Type().ConvertibleTo(tt) {
				t.Fatalf("[]int must be convertible to %v as far as the types go", tt)
			}
			panicked := func() (p bool) {
				defer func() { p = recover() != nil }()
				s.Convert(tt)
				return
			}()
			if panicked != (n < 3) {
				t.Errorf("Convert of a %d-element slice to %v: panicked=%v", n, tt, panicked)
			}
		}
	}
	if arr.Len() != 3 || parr.Elem().Len() != 3 {
		t.Errorf("Type.Len")
	}
}
