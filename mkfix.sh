#!/bin/bash
# mkfix.sh "<commit message starting with fix:>" "<props the reverse patch must trip>" files...
# Maintenance helper: runs the repository's own tests, commits only the named files in /repo as one fix commit,
# and stores the reverse patch as a must-fail selftest mutant.
set -e
export GOFLAGS=-mod=mod GOPROXY=off GOSUMDB=off GOTOOLCHAIN=local
MSG=$1; PROPS=$2; shift 2
case "$MSG" in fix:*) ;; *) echo "message must start with fix:"; exit 2;; esac
cd /repo
go build ./... && go test -vet=off -count=1 ./... 2>&1 | tail -8
go test -vet=off -count=1 ./... >/dev/null 2>&1 || { echo "TESTS FAIL"; exit 1; }
git add "$@"
git commit -q -m "$MSG" -- "$@"
H=$(git rev-parse --short HEAD)
{ echo "# expect: $PROPS"; echo "# reverse of $H ($MSG)"; git diff HEAD HEAD~1 -- "$@"; } > /verif/selftest/mutants/revert_fix_$H.patch
echo "committed $H"
